----------------------------- MODULE Accounting -----------------------------
(***************************************************************************)
(* C16 for histories of unbounded length: the slot accounting of the       *)
(* arena abstracted to four counters.  Every event of Trie.tla is a        *)
(* sequence of Alloc steps (insertions), a sequence of Free steps          *)
(* (removals) or Clear; MC.tla checks that refinement on every transition  *)
(* of the bounded universes (step property PropAcct), and the inductive    *)
(* invariant below is discharged by Apalache for *all* reachable states:   *)
(*     apalache-mc check --init=Init    --inv=Inv --length=0 Accounting.tla *)
(*     apalache-mc check --init=IndInit --inv=Inv --length=1 Accounting.tla *)
(* Inv says: every slot ever allocated is in the tree or on the free list  *)
(* (nslots = ntree + nfree) and the arena is exactly as long as the        *)
(* largest number of nodes needed at one time since the last clear.        *)
(***************************************************************************)
EXTENDS Integers

VARIABLES
    \* @type: Int;
    nslots,     \* length of the arena
    \* @type: Int;
    nfree,      \* length of the free list
    \* @type: Int;
    ntree,      \* nodes reachable from the root (the root included)
    \* @type: Int;
    hwm         \* largest ntree since the last clear

Max(a, b) == IF a >= b THEN a ELSE b

Init == nslots = 1 /\ nfree = 0 /\ ntree = 1 /\ hwm = 1

Alloc == /\ ntree' = ntree + 1
         /\ IF nfree > 0 THEN nfree' = nfree - 1 /\ nslots' = nslots
                         ELSE nfree' = nfree /\ nslots' = nslots + 1
         /\ hwm' = Max(hwm, ntree + 1)
Free ==  /\ ntree > 1                   \* the root is never freed
         /\ ntree' = ntree - 1 /\ nfree' = nfree + 1
         /\ UNCHANGED <<nslots, hwm>>
Clear == nslots' = 1 /\ nfree' = 0 /\ ntree' = 1 /\ hwm' = 1
Next == Alloc \/ Free \/ Clear

Inv == /\ ntree >= 1 /\ nfree >= 0
       /\ nslots = ntree + nfree        \* partition: never both, never neither
       /\ nslots = hwm                  \* bounded by the largest number of nodes ever needed at one time
       /\ hwm >= ntree
\* the inductive hypothesis as an initial predicate
IndInit == nslots \in Int /\ nfree \in Int /\ ntree \in Int /\ hwm \in Int /\ Inv
=============================================================================
