------------------------------- MODULE MCPair -------------------------------
(***************************************************************************)
(* Model checking over pairs of maps: both maps are driven through their   *)
(* mutators independently; in every pair-state every set operation is      *)
(* evaluated for every pair of view roots and judged against its abstract  *)
(* definition; rows are printed for replay on the code.                    *)
(***************************************************************************)
EXTENDS PairEvents, Json, TLCExt

CONSTANTS KeyLen, Base, Hosts, ExplicitKeys,
          ValsA, ValsB,      \* values inserted into A / B (distinct, so that sides cannot be confused)
          ActsA, ActsB,      \* mutator alphabets
          PairActs,          \* pair observers to evaluate
          MaxCountA, MaxCountB, MaxNodesA, MaxNodesB,
          EmitActs

VARIABLES mA, mB, absA, absB, ev, ret, histA, histB
vars == <<mA, mB, absA, absB, ev, ret, histA, histB>>

RECURSIVE BitSeqs(_)
BitSeqs(k) == IF k <= 0 THEN {<<>>}
              ELSE LET S == BitSeqs(k - 1) IN
                   S \cup {Append(s, 0) : s \in {t \in S : Len(t) = k - 1}}
                     \cup {Append(s, 1) : s \in {t \in S : Len(t) = k - 1}}
\* the key universe: all bit strings up to KeyLen (prefixed by Base), or -- for KeyLen < 0 -- an explicit set
\* (e.g. a chain four levels deep with its siblings: deeper than the complete universes can afford)
Keys  == IF KeyLen >= 0 THEN {<<>>} \cup {Base \o s : s \in BitSeqs(KeyLen)} ELSE ExplicitKeys
Pfxs  == {Pfx(n, h) : n \in Keys, h \in Hosts}
ZPfxs == {Pfx(n, ZeroHost) : n \in Keys}

MutEvents(acts, vals) ==
    UNION {CASE a = "Insert" -> {[a |-> a, p |-> p, v |-> v] : p \in Pfxs, v \in vals}
             [] a \in {"Remove", "RemoveKeepTree", "RemoveChildren", "ViewRemove"} -> {[a |-> a, p |-> p] : p \in ZPfxs}
             [] a = "ViewSet" -> {[a |-> a, p |-> p, v |-> v] : p \in ZPfxs, v \in vals}
           : a \in acts}
PairEvs == UNION {IF a = "Eq" THEN {[a |-> a]}
                  ELSE IF a = "PairWrite"
                  THEN {[a |-> a, op |-> o, qa |-> qa, qb |-> qb, k |-> k] :
                           o \in {"UnionMut", "InterMut", "DiffMut", "CovDiffMut"}, qa \in ZPfxs, qb \in ZPfxs,
                           k \in 0..2}
                  ELSE {[a |-> a, qa |-> qa, qb |-> qb] : qa \in ZPfxs, qb \in ZPfxs}
                  : a \in PairActs}

Init == /\ mA = EmptyMap /\ mB = EmptyMap /\ absA = {} /\ absB = {}
        /\ ev = [a |-> "Init"] /\ ret = <<>> /\ histA = <<>> /\ histB = <<>>

StepA == \E e \in MutEvents(ActsA, ValsA) :
           LET r == Apply(mA, e) IN
           /\ mA' = r.m /\ absA' = AbsApply(absA, e, r).E /\ histA' = Append(histA, e)
           /\ ev' = [a |-> "MutA", e |-> e] /\ ret' = r.ret
           /\ UNCHANGED <<mB, absB, histB>>
StepB == \E e \in MutEvents(ActsB, ValsB) :
           LET r == Apply(mB, e) IN
           /\ mB' = r.m /\ absB' = AbsApply(absB, e, r).E /\ histB' = Append(histB, e)
           /\ ev' = [a |-> "MutB", e |-> e] /\ ret' = r.ret
           /\ UNCHANGED <<mA, absA, histA>>
Obs == \E e \in PairEvs :
           /\ ev' = e /\ ret' = PairObserve(mA, mB, e)
           /\ UNCHANGED <<mA, mB, absA, absB, histA, histB>>
Next == StepA \/ StepB \/ Obs

View == <<Tree(mA), Tree(mB), mA.c, mB.c>>
Bound == /\ Cardinality(absA) <= MaxCountA /\ Cardinality(absB) <= MaxCountB
         /\ Cardinality(Reach(mA)) <= MaxNodesA /\ Cardinality(Reach(mB)) <= MaxNodesB
         \* the counter may lag / lead only through finding F4 (view set / remove); one step of it is explored
         /\ Drift(mA) \in 0..1 /\ Drift(mB) \in 0..1

InvRefines == Entries(mA) = absA /\ Entries(mB) = absB
InvWF == WF(mA) /\ WF(mB)
\* C05 - C08, C19: every pair observation agrees with its abstract definition
StepPairOK == ev'.a \in PairObservers =>
                 /\ PairObserveOK(absA, absB, ev', ret')
                 /\ ev'.a = "PairWrite" => PairWriteOK(absA, absB, mA, mB, ev', ret')
PropPair == [][StepPairOK]_vars

StateRow == [s |-> <<histA, histB>>, fa |-> Tree(mA), fb |-> Tree(mB)]
EmitState == EmitActs # {} => PrintT(ToJson(StateRow))
Emit == ev'.a \in EmitActs /\ ret' # <<>> => PrintT(ToJson([h |-> <<histA, histB>>, e |-> ev', r |-> ret']))
=============================================================================
