---------------------------- MODULE PairEvents ----------------------------
(***************************************************************************)
(* Events over two maps A and B: the four set operations and their _mut    *)
(* twins between a view of A and a view of B (the views are taken with     *)
(* view_at / view_mut_at at arbitrary prefixes: stored, branching, virtual,*)
(* absent), and map equality.                                              *)
(***************************************************************************)
EXTENDS Events

PairObservers == {"Union", "Inter", "Diff", "CovDiff", "UnionMut", "InterMut", "DiffMut", "CovDiffMut", "Eq", "PairWrite"}

(***************************************************************************)
(* C13 for the _mut set operations: hold every yielded item, write through *)
(* the mutable references of the k-th item (all items for k = 0), and look *)
(* at both maps afterwards.  Item j of the run hands out a reference into  *)
(* L at slot sl and / or into R at slot sr (0 = none).                     *)
(***************************************************************************)
RECURSIVE Shape2(_)
Shape2(t) == IF t = <<>> THEN <<>> ELSE <<t[1], Shape2(t[4]), Shape2(t[5])>>
MutSlots(A, B, op, la, lb) ==
    CASE op = "UnionMut"   -> UnionSlots(A, B, la, lb)
      [] op = "InterMut"   -> LET u == InterFull(A, B, la, lb) IN [i \in 1..Len(u) |-> [l |-> u[i].sl, r |-> u[i].sr]]
      [] op = "DiffMut"    -> LET u == DiffFull(A, B, la, lb) IN [i \in 1..Len(u) |-> [l |-> u[i].sl, r |-> 0]]
      [] op = "CovDiffMut" -> LET u == CovDiffFull(A, B, la, lb) IN [i \in 1..Len(u) |-> [l |-> u[i].sl, r |-> 0]]
FlipSlots(m, S) == [m EXCEPT !.a = [i \in DOMAIN m.a |-> IF i \in S THEN [m.a[i] EXCEPT !.v = Flip(@)] ELSE m.a[i]]]
PairWriteRun(A, B, e) ==
    LET la == ViewAt(A, e.qa)
        lb == ViewAt(B, e.qb)
    IN IF la = <<>> \/ lb = <<>> THEN <<>>
       ELSE LET sl == MutSlots(A, B, e.op, la[1], lb[1])
                J  == {j \in 1..Len(sl) : e.k = 0 \/ e.k = j}
                SA == {sl[j].l : j \in J} \ {0}
                SB == {sl[j].r : j \in J} \ {0}
            IN <<[n |-> Len(sl), ta |-> Tree(FlipSlots(A, SA)), tb |-> Tree(FlipSlots(B, SB))]>>
\* abstractly: exactly the entries the k-th item (or all items) names change, on the sides that are mutable
PairWriteOK(EAll, EBll, A, B, e, ret) ==
    LET EA == AUnder(EAll, e.qa)
        EB == AUnder(EBll, e.qb)
        items == CASE e.op = "UnionMut"   -> LET u == AUnion(EA, EB) IN
                                              [i \in 1..Len(u) |-> [n |-> u[i].p.n, l |-> u[i].k \in {"L", "B"}, r |-> u[i].k \in {"R", "B"}]]
                   [] e.op = "InterMut"   -> LET u == AIntersection(EA, EB) IN [i \in 1..Len(u) |-> [n |-> u[i].p.n, l |-> TRUE, r |-> TRUE]]
                   [] e.op = "DiffMut"    -> LET u == ADifference(EA, EB) IN [i \in 1..Len(u) |-> [n |-> u[i].p.n, l |-> TRUE, r |-> FALSE]]
                   [] e.op = "CovDiffMut" -> LET u == ACoveringDifference(EA, EB) IN [i \in 1..Len(u) |-> [n |-> u[i].p.n, l |-> TRUE, r |-> FALSE]]
        J  == {j \in 1..Len(items) : e.k = 0 \/ e.k = j}
        KA == {items[j].n : j \in {x \in J : items[x].l}}
        KB == {items[j].n : j \in {x \in J : items[x].r}}
        FlipE(E, K) == {IF x.n \in K THEN [x EXCEPT !.v = Flip(@)] ELSE x : x \in E}
        RECURSIVE TE(_)
        TE(t) == IF t = <<>> THEN {} ELSE (IF t[3] = NoVal THEN {} ELSE {[n |-> t[1], h |-> t[2], v |-> t[3]]}) \cup TE(t[4]) \cup TE(t[5])
    IN /\ ret = <<>> => EA = {} \/ EB = {}
       /\ ret # <<>> => /\ ret[1].n = Len(items)
                        /\ TE(ret[1].ta) = FlipE(EAll, KA)          \* writes land exactly there ...
                        /\ TE(ret[1].tb) = FlipE(EBll, KB)
                        /\ Shape2(ret[1].ta) = Shape2(Tree(A)) /\ Shape2(ret[1].tb) = Shape2(Tree(B))   \* ... and change no shape

\* PartialEq for PrefixMap: Iterator::eq over (prefix, value) pairs, with the key type's own
\* equality (which, for the tuple types, compares host bits too)
EqAlg(A, B) == EqAlg1(A, B)

\* result of a pair observer: <<>> when one of the two views does not exist
PairObserve(A, B, e) ==
    IF e.a = "Eq" THEN B2S(EqAlg(A, B)) ELSE
    IF e.a = "PairWrite" THEN PairWriteRun(A, B, e) ELSE
    LET la == ViewAt(A, e.qa)
        lb == ViewAt(B, e.qb)
    IN IF la = <<>> \/ lb = <<>> THEN <<>>
       ELSE <<CASE e.a = "Union"      -> UnionRun(A, B, la[1], lb[1])
                [] e.a = "UnionMut"   -> UnionMutRun(A, B, la[1], lb[1])
                [] e.a \in {"Inter", "InterMut"}     -> InterRun(A, B, la[1], lb[1])
                [] e.a \in {"Diff", "DiffMut"}       -> DiffRun(A, B, la[1], lb[1])
                [] e.a \in {"CovDiff", "CovDiffMut"} -> CovDiffRun(A, B, la[1], lb[1])>>

\* the abstract judgement (C05 - C08, C19)
PairObserveOK(EAll, EBll, e, ret) ==
    IF e.a = "Eq" THEN ret = B2S(AEq(EAll, EBll)) ELSE
    IF e.a = "PairWrite" THEN TRUE ELSE        \* judged by PairWriteOK (needs the maps)
    LET EA == AUnder(EAll, e.qa)
        EB == AUnder(EBll, e.qb)
    IN /\ ret = <<>> => EA = {} \/ EB = {}
       /\ ret # <<>> =>
            CASE e.a = "Union"    -> UnionOK(ret[1], EA, EB)
              [] e.a = "UnionMut" ->
                   LET au == AUnion(EA, EB) IN
                   /\ Len(ret[1]) = Len(au)
                   /\ \A i \in 1..Len(au) :
                        /\ ret[1][i].p.n = au[i].p.n
                        /\ ret[1][i].l = (IF au[i].k \in {"L", "B"} THEN <<au[i].l[1].v>> ELSE <<>>)
                        /\ ret[1][i].r = (IF au[i].k \in {"R", "B"} THEN <<au[i].r[1].v>> ELSE <<>>)
              [] e.a \in {"Inter", "InterMut"}     -> InterOK(ret[1], EA, EB)
              [] e.a \in {"Diff", "DiffMut"}       -> DiffOK(ret[1], EA, EB)
              [] e.a \in {"CovDiff", "CovDiffMut"} -> CovDiffOK(ret[1], EA, EB)
=============================================================================
