---------------------------- MODULE PairEvents ----------------------------
(***************************************************************************)
(* Events over two maps A and B: the four set operations and their _mut    *)
(* twins between a view of A and a view of B (the views are taken with     *)
(* view_at / view_mut_at at arbitrary prefixes: stored, branching, virtual,*)
(* absent), and map equality.                                              *)
(***************************************************************************)
EXTENDS Events

PairObservers == {"Union", "Inter", "Diff", "CovDiff", "UnionMut", "InterMut", "DiffMut", "CovDiffMut", "Eq"}

\* PartialEq for PrefixMap: Iterator::eq over (prefix, value) pairs, with the key type's own
\* equality (which, for the tuple types, compares host bits too)
EqAlg(A, B) == EqAlg1(A, B)

\* result of a pair observer: <<>> when one of the two views does not exist
PairObserve(A, B, e) ==
    IF e.a = "Eq" THEN B2S(EqAlg(A, B)) ELSE
    LET la == ViewAt(A, e.qa)
        lb == ViewAt(B, e.qb)
    IN IF la = <<>> \/ lb = <<>> THEN <<>>
       ELSE <<CASE e.a = "Union"      -> UnionRun(A, B, la[1], lb[1])
                [] e.a = "UnionMut"   -> UnionMutRun(A, B, la[1], lb[1])
                [] e.a \in {"Inter", "InterMut"}     -> InterRun(A, B, la[1], lb[1])
                [] e.a \in {"Diff", "DiffMut"}       -> DiffRun(A, B, la[1], lb[1])
                [] e.a \in {"CovDiff", "CovDiffMut"} -> CovDiffRun(A, B, la[1], lb[1])>>

\* the abstract judgement (C05 - C08, C19)
PairObserveOK(EAll, EBll, e, ret) ==
    IF e.a = "Eq" THEN ret = B2S(AEq(EAll, EBll)) ELSE
    LET EA == AUnder(EAll, e.qa)
        EB == AUnder(EBll, e.qb)
    IN /\ ret = <<>> => EA = {} \/ EB = {}
       /\ ret # <<>> =>
            CASE e.a = "Union"    -> UnionOK(ret[1], EA, EB)
              [] e.a = "UnionMut" ->
                   LET au == AUnion(EA, EB) IN
                   /\ Len(ret[1]) = Len(au)
                   /\ \A i \in 1..Len(au) :
                        /\ ret[1][i].p.n = au[i].p.n
                        /\ ret[1][i].l = (IF au[i].k \in {"L", "B"} THEN <<au[i].l[1].v>> ELSE <<>>)
                        /\ ret[1][i].r = (IF au[i].k \in {"R", "B"} THEN <<au[i].r[1].v>> ELSE <<>>)
              [] e.a \in {"Inter", "InterMut"}     -> InterOK(ret[1], EA, EB)
              [] e.a \in {"Diff", "DiffMut"}       -> DiffOK(ret[1], EA, EB)
              [] e.a \in {"CovDiff", "CovDiffMut"} -> CovDiffOK(ret[1], EA, EB)
=============================================================================
