------------------------------ MODULE SetOps ------------------------------
(***************************************************************************)
(* The simultaneous-traversal set operations (src/trieview/union.rs,       *)
(* intersection.rs, difference.rs) as stack machines over two maps L and R *)
(* (which may be the same map when two disjoint views of one map are       *)
(* combined).  The operations start at the slots of the two view           *)
(* locations (for a virtual location: the node below it).                  *)
(*                                                                         *)
(* A stack is a sequence, the last element is popped first; `extend`       *)
(* appends in vector order -- exactly like Vec::extend / push / insert(0). *)
(***************************************************************************)
EXTENDS Views

Ix(k, l, r) == [k |-> k, l |-> l, r |-> r]

(* ------------------------------ union ---------------------------------- *)
\* union.rs:next_indices
UNextIdx(L, R, a, b) ==
    IF a = 0 /\ b = 0 THEN <<>>
    ELSE IF a = 0 THEN <<Ix("OnlyR", 0, b)>>
    ELSE IF b = 0 THEN <<Ix("OnlyL", a, 0)>>
    ELSE LET pa == L.a[a].p
             pb == R.a[b].p
         IN IF PLen(pa) = PLen(pb) THEN
                 CASE MaskCmp(pa, pb) = -1 -> <<Ix("OnlyR", 0, b), Ix("OnlyL", a, 0)>>
                   [] MaskCmp(pa, pb) = 0  -> <<Ix("Both", a, b)>>
                   [] MaskCmp(pa, pb) = 1  -> <<Ix("OnlyL", a, 0), Ix("OnlyR", 0, b)>>
            ELSE IF Covers(pa, pb) THEN <<Ix("FirstL", a, b)>>
            ELSE IF Covers(pb, pa) THEN <<Ix("FirstR", a, b)>>
            ELSE IF MaskCmp(pa, pb) = -1 THEN <<Ix("OnlyR", 0, b), Ix("OnlyL", a, 0)>>
            ELSE <<Ix("OnlyL", a, 0), Ix("OnlyR", 0, b)>>

\* union.rs:next_indices_first_l  (l covers r; descend on the left operand)
UNextFirstL(L, R, l, r) ==
    LET ll == L.a[l].l
        lr == L.a[l].r
    IN IF ll = 0 /\ lr = 0 THEN <<Ix("OnlyR", 0, r)>>
       ELSE IF ll = 0 THEN UNextIdx(L, R, lr, r)
       ELSE IF lr = 0 THEN UNextIdx(L, R, ll, r)
       ELSE IF ToRight(L.a[l].p, R.a[r].p)
            THEN Append(UNextIdx(L, R, lr, r), Ix("OnlyL", ll, 0))
            ELSE <<Ix("OnlyL", lr, 0)>> \o UNextIdx(L, R, ll, r)
\* union.rs:next_indices_first_r
UNextFirstR(L, R, l, r) ==
    LET rl == R.a[r].l
        rr == R.a[r].r
    IN IF rl = 0 /\ rr = 0 THEN <<Ix("OnlyL", l, 0)>>
       ELSE IF rl = 0 THEN UNextIdx(L, R, l, rr)
       ELSE IF rr = 0 THEN UNextIdx(L, R, l, rl)
       ELSE IF ToRight(R.a[r].p, L.a[l].p)
            THEN Append(UNextIdx(L, R, l, rr), Ix("OnlyR", 0, rl))
            ELSE <<Ix("OnlyR", 0, rr)>> \o UNextIdx(L, R, l, rl)

\* union.rs:extend_lpm -- attach the inherited longest-prefix matches
UExtendLpm(L, R, lpmL, lpmR, ixs) ==
    LET GL(l) == IF L.a[l].v # NoVal THEN PV(L.a[l]) ELSE lpmL
        GR(r) == IF R.a[r].v # NoVal THEN PV(R.a[r]) ELSE lpmR
    IN [i \in 1..Len(ixs) |->
          LET x == ixs[i] IN
          CASE x.k = "Both"                -> [ix |-> x, ll |-> GL(x.l), lr |-> GR(x.r)]
            [] x.k \in {"FirstL", "OnlyL"} -> [ix |-> x, ll |-> GL(x.l), lr |-> lpmR]
            [] x.k \in {"FirstR", "OnlyR"} -> [ix |-> x, ll |-> lpmL, lr |-> GR(x.r)]]

UItem(p, l, r, lpmL, lpmR) ==                      \* Union::get_next
    IF l = NoVal /\ r = NoVal THEN <<>>
    ELSE IF l = NoVal THEN <<[k |-> "R", p |-> p, l |-> lpmL, r |-> <<[p |-> p, v |-> r]>>]>>
    ELSE IF r = NoVal THEN <<[k |-> "L", p |-> p, l |-> <<[p |-> p, v |-> l]>>, r |-> lpmR]>>
    ELSE <<[k |-> "B", p |-> p, l |-> <<[p |-> p, v |-> l]>>, r |-> <<[p |-> p, v |-> r]>>]>>

\* one pop of Union::next: new stack + possibly an item
UStep(L, R, st) ==
    LET top == Last(st)
        x   == top.ix
        s0  == Front(st)
        Ext(ixs) == UExtendLpm(L, R, top.ll, top.lr, ixs)
    IN CASE x.k = "Both" ->
              [st |-> s0 \o Ext(UNextIdx(L, R, L.a[x.l].r, R.a[x.r].r)) \o Ext(UNextIdx(L, R, L.a[x.l].l, R.a[x.r].l)),
               \* the reported prefix is one that is stored: the left one if the left node holds a value
               item |-> UItem(IF L.a[x.l].v # NoVal THEN L.a[x.l].p ELSE R.a[x.r].p,
                              L.a[x.l].v, R.a[x.r].v, top.ll, top.lr)]
         [] x.k = "FirstL" ->
              [st |-> s0 \o Ext(UNextFirstL(L, R, x.l, x.r)),
               item |-> UItem(L.a[x.l].p, L.a[x.l].v, NoVal, top.ll, top.lr)]
         [] x.k = "FirstR" ->
              [st |-> s0 \o Ext(UNextFirstR(L, R, x.l, x.r)),
               item |-> UItem(R.a[x.r].p, NoVal, R.a[x.r].v, top.ll, top.lr)]
         [] x.k = "OnlyL" ->
              [st |-> s0 \o Ext((IF L.a[x.l].r # 0 THEN <<Ix("OnlyL", L.a[x.l].r, 0)>> ELSE <<>>))
                         \o Ext((IF L.a[x.l].l # 0 THEN <<Ix("OnlyL", L.a[x.l].l, 0)>> ELSE <<>>)),
               item |-> UItem(L.a[x.l].p, L.a[x.l].v, NoVal, top.ll, top.lr)]
         [] x.k = "OnlyR" ->
              [st |-> s0 \o Ext((IF R.a[x.r].r # 0 THEN <<Ix("OnlyR", 0, R.a[x.r].r)>> ELSE <<>>))
                         \o Ext((IF R.a[x.r].l # 0 THEN <<Ix("OnlyR", 0, R.a[x.r].l)>> ELSE <<>>)),
               item |-> UItem(R.a[x.r].p, NoVal, R.a[x.r].v, top.ll, top.lr)]

RECURSIVE URun(_, _, _)
URun(L, R, st) == IF st = <<>> THEN <<>>
                  ELSE LET s == UStep(L, R, st) IN s.item \o URun(L, R, s.st)
\* TrieView::union: the inherited matches start empty
UnionRun(L, R, la, lb) == URun(L, R, UExtendLpm(L, R, <<>>, <<>>, UNextIdx(L, R, la.i, lb.i)))
\* union_mut yields (prefix, Option<&mut L>, Option<&mut R>): the same walk without annotations
UnionMutRun(L, R, la, lb) ==
    LET u == UnionRun(L, R, la, lb) IN
    [i \in 1..Len(u) |-> [p |-> u[i].p,
                          l |-> IF u[i].k \in {"L", "B"} THEN <<u[i].l[1].v>> ELSE <<>>,
                          r |-> IF u[i].k \in {"R", "B"} THEN <<u[i].r[1].v>> ELSE <<>>]]
\* slots a *_mut traversal hands out references to, in yield order: <<side, slot>>
RECURSIVE USlots(_, _, _)
USlots(L, R, st) ==
    IF st = <<>> THEN <<>>
    ELSE LET top == Last(st)
             s   == UStep(L, R, st)
             x   == top.ix
             here == IF s.item = <<>> THEN <<>>
                     ELSE <<[l |-> IF x.k \in {"Both", "FirstL", "OnlyL"} /\ L.a[x.l].v # NoVal THEN x.l ELSE 0,
                             r |-> IF x.k \in {"Both", "FirstR", "OnlyR"} /\ R.a[x.r].v # NoVal THEN x.r ELSE 0]>>
         IN here \o USlots(L, R, s.st)
UnionSlots(L, R, la, lb) == USlots(L, R, UExtendLpm(L, R, <<>>, <<>>, UNextIdx(L, R, la.i, lb.i)))

(* --------------------------- intersection ------------------------------ *)
INextIdx(L, R, a, b) ==                              \* intersection.rs:next_indices
    IF a = 0 \/ b = 0 THEN <<>>
    ELSE LET pa == L.a[a].p
             pb == R.a[b].p
         IN IF PLen(pa) = PLen(pb) THEN (IF MaskCmp(pa, pb) = 0 THEN <<Ix("Both", a, b)>> ELSE <<>>)
            ELSE IF Covers(pa, pb) THEN <<Ix("FirstA", a, b)>>
            ELSE IF Covers(pb, pa) THEN <<Ix("FirstB", a, b)>>
            ELSE <<>>
INextFirstA(L, R, l, r) ==
    LET ll == L.a[l].l
        lr == L.a[l].r
    IN IF ll = 0 /\ lr = 0 THEN <<>>
       ELSE IF ll = 0 THEN INextIdx(L, R, lr, r)
       ELSE IF lr = 0 THEN INextIdx(L, R, ll, r)
       ELSE IF ToRight(L.a[l].p, R.a[r].p) THEN INextIdx(L, R, lr, r) ELSE INextIdx(L, R, ll, r)
INextFirstB(L, R, l, r) ==
    LET rl == R.a[r].l
        rr == R.a[r].r
    IN IF rl = 0 /\ rr = 0 THEN <<>>
       ELSE IF rl = 0 THEN INextIdx(L, R, l, rr)
       ELSE IF rr = 0 THEN INextIdx(L, R, l, rl)
       ELSE IF ToRight(R.a[r].p, L.a[l].p) THEN INextIdx(L, R, l, rr) ELSE INextIdx(L, R, l, rl)
IStep(L, R, st) ==
    LET x  == Last(st)
        s0 == Front(st)
    IN CASE x.k = "Both" ->
              [st |-> s0 \o INextIdx(L, R, L.a[x.l].r, R.a[x.r].r) \o INextIdx(L, R, L.a[x.l].l, R.a[x.r].l),
               item |-> IF L.a[x.l].v # NoVal /\ R.a[x.r].v # NoVal
                        THEN <<[p |-> L.a[x.l].p, l |-> L.a[x.l].v, r |-> R.a[x.r].v, sl |-> x.l, sr |-> x.r]>>
                        ELSE <<>>]
         [] x.k = "FirstA" -> [st |-> s0 \o INextFirstA(L, R, x.l, x.r), item |-> <<>>]
         [] x.k = "FirstB" -> [st |-> s0 \o INextFirstB(L, R, x.l, x.r), item |-> <<>>]
RECURSIVE IRun(_, _, _)
IRun(L, R, st) == IF st = <<>> THEN <<>>
                  ELSE LET s == IStep(L, R, st) IN s.item \o IRun(L, R, s.st)
InterFull(L, R, la, lb) == IRun(L, R, INextIdx(L, R, la.i, lb.i))
InterRun(L, R, la, lb) == LET u == InterFull(L, R, la, lb) IN
                          [i \in 1..Len(u) |-> [p |-> u[i].p, l |-> u[i].l, r |-> u[i].r]]

(* ---------------------- difference / covering difference --------------- *)
DNextIdx(L, R, l, r) ==                              \* difference.rs:next_indices
    IF l = 0 THEN <<>>
    ELSE IF r = 0 THEN <<Ix("OnlyL", l, 0)>>
    ELSE LET pl == L.a[l].p
             pr == R.a[r].p
         IN IF PLen(pl) = PLen(pr)
            THEN (IF MaskCmp(pl, pr) = 0 THEN <<Ix("Both", l, r)>> ELSE <<Ix("OnlyL", l, 0)>>)
            ELSE IF Covers(pl, pr) THEN <<Ix("FirstL", l, r)>>
            ELSE IF Covers(pr, pl) THEN <<Ix("FirstR", l, r)>>
            ELSE <<Ix("OnlyL", l, 0)>>
DNextFirstA(L, R, l, r) ==
    LET ll == L.a[l].l
        lr == L.a[l].r
    IN IF ll = 0 /\ lr = 0 THEN <<>>
       ELSE IF ll = 0 THEN DNextIdx(L, R, lr, r)
       ELSE IF lr = 0 THEN DNextIdx(L, R, ll, r)
       ELSE IF ToRight(L.a[l].p, R.a[r].p)
            THEN Append(DNextIdx(L, R, lr, r), Ix("OnlyL", ll, 0))
            ELSE <<Ix("OnlyL", lr, 0)>> \o DNextIdx(L, R, ll, r)
DNextFirstB(L, R, l, r) ==
    LET rl == R.a[r].l
        rr == R.a[r].r
    IN IF rl = 0 /\ rr = 0 THEN <<Ix("OnlyL", l, 0)>>
       ELSE IF rl = 0 THEN DNextIdx(L, R, l, rr)
       ELSE IF rr = 0 THEN DNextIdx(L, R, l, rl)
       ELSE IF ToRight(R.a[r].p, L.a[l].p) THEN DNextIdx(L, R, l, rr) ELSE DNextIdx(L, R, l, rl)
DExtendLpm(R, lpmR, ixs) ==                          \* difference.rs:extend_lpm
    [i \in 1..Len(ixs) |->
       LET x == ixs[i] IN
       IF x.k \in {"Both", "FirstR"}
       THEN [ix |-> x, lr |-> IF R.a[x.r].v # NoVal THEN PV(R.a[x.r]) ELSE lpmR]
       ELSE [ix |-> x, lr |-> lpmR]]
DItem(L, l, lpmR) == <<[p |-> L.a[l].p, v |-> L.a[l].v, r |-> lpmR, sl |-> l]>>
DStep(L, R, st) ==
    LET top == Last(st)
        x   == top.ix
        s0  == Front(st)
        Ext(ixs) == DExtendLpm(R, top.lr, ixs)
    IN CASE x.k = "Both" ->
              [st |-> s0 \o Ext(DNextIdx(L, R, L.a[x.l].r, R.a[x.r].r)) \o Ext(DNextIdx(L, R, L.a[x.l].l, R.a[x.r].l)),
               item |-> IF L.a[x.l].v # NoVal /\ R.a[x.r].v = NoVal THEN DItem(L, x.l, top.lr) ELSE <<>>]
         [] x.k = "FirstL" ->
              [st |-> s0 \o Ext(DNextFirstA(L, R, x.l, x.r)),
               item |-> IF L.a[x.l].v # NoVal THEN DItem(L, x.l, top.lr) ELSE <<>>]
         [] x.k = "FirstR" ->
              [st |-> s0 \o Ext(DNextFirstB(L, R, x.l, x.r)), item |-> <<>>]
         [] x.k = "OnlyL" ->
              [st |-> s0 \o Ext((IF L.a[x.l].r # 0 THEN <<Ix("OnlyL", L.a[x.l].r, 0)>> ELSE <<>>))
                         \o Ext((IF L.a[x.l].l # 0 THEN <<Ix("OnlyL", L.a[x.l].l, 0)>> ELSE <<>>)),
               item |-> IF L.a[x.l].v # NoVal THEN DItem(L, x.l, top.lr) ELSE <<>>]
RECURSIVE DRun(_, _, _)
DRun(L, R, st) == IF st = <<>> THEN <<>>
                  ELSE LET s == DStep(L, R, st) IN s.item \o DRun(L, R, s.st)
DiffFull(L, R, la, lb) == DRun(L, R, DExtendLpm(R, <<>>, DNextIdx(L, R, la.i, lb.i)))
DiffRun(L, R, la, lb) == LET u == DiffFull(L, R, la, lb) IN
                         [i \in 1..Len(u) |-> [p |-> u[i].p, v |-> u[i].v, r |-> u[i].r]]

\* covering difference: prune as soon as the right operand stores a covering prefix
CStep(L, R, st) ==
    LET x  == Last(st)
        s0 == Front(st)
    IN CASE x.k = "Both" ->
              IF R.a[x.r].v # NoVal THEN [st |-> s0, item |-> <<>>]
              ELSE [st |-> s0 \o DNextIdx(L, R, L.a[x.l].r, R.a[x.r].r) \o DNextIdx(L, R, L.a[x.l].l, R.a[x.r].l),
                    item |-> IF L.a[x.l].v # NoVal THEN <<[p |-> L.a[x.l].p, v |-> L.a[x.l].v, sl |-> x.l]>> ELSE <<>>]
         [] x.k = "FirstL" ->
              [st |-> s0 \o DNextFirstA(L, R, x.l, x.r),
               item |-> IF L.a[x.l].v # NoVal THEN <<[p |-> L.a[x.l].p, v |-> L.a[x.l].v, sl |-> x.l]>> ELSE <<>>]
         [] x.k = "FirstR" ->
              IF R.a[x.r].v # NoVal THEN [st |-> s0, item |-> <<>>]
              ELSE [st |-> s0 \o DNextFirstB(L, R, x.l, x.r), item |-> <<>>]
         [] x.k = "OnlyL" ->
              [st |-> s0 \o (IF L.a[x.l].r # 0 THEN <<Ix("OnlyL", L.a[x.l].r, 0)>> ELSE <<>>)
                         \o (IF L.a[x.l].l # 0 THEN <<Ix("OnlyL", L.a[x.l].l, 0)>> ELSE <<>>),
               item |-> IF L.a[x.l].v # NoVal THEN <<[p |-> L.a[x.l].p, v |-> L.a[x.l].v, sl |-> x.l]>> ELSE <<>>]
RECURSIVE CRun(_, _, _)
CRun(L, R, st) == IF st = <<>> THEN <<>>
                  ELSE LET s == CStep(L, R, st) IN s.item \o CRun(L, R, s.st)
CovDiffFull(L, R, la, lb) == CRun(L, R, DNextIdx(L, R, la.i, lb.i))
CovDiffRun(L, R, la, lb) == LET u == CovDiffFull(L, R, la, lb) IN
                            [i \in 1..Len(u) |-> [p |-> u[i].p, v |-> u[i].v]]

(***************************************************************************)
(* Agreement with the abstract definitions (C05 - C08).  EA / EB are the    *)
(* entries of the two views.  For an item stored on both sides either      *)
(* stored representation is acceptable (C18); the code reports the left.   *)
(***************************************************************************)
SameKeyPV(x, y) == x.p.n = y.p.n /\ x.v = y.v
UnionOK(run, EA, EB) ==
    LET au == AUnion(EA, EB) IN
    /\ Len(run) = Len(au)
    /\ \A i \in 1..Len(run) :
         /\ run[i].k = au[i].k
         /\ run[i].p.n = au[i].p.n
         /\ IF au[i].k = "B"
            THEN /\ run[i].l[1].v = au[i].l[1].v /\ run[i].r[1].v = au[i].r[1].v
                 /\ run[i].p.h \in {au[i].l[1].p.h, au[i].r[1].p.h}
            ELSE run[i].p = au[i].p /\ run[i].l = au[i].l /\ run[i].r = au[i].r
InterOK(run, EA, EB) ==
    LET ai == AIntersection(EA, EB) IN
    /\ Len(run) = Len(ai)
    /\ \A i \in 1..Len(run) :
         /\ run[i].p.n = ai[i].p.n /\ run[i].l = ai[i].l /\ run[i].r = ai[i].r
         /\ run[i].p.h \in {ai[i].p.h, AGet(EB, ai[i].p.n).h}
DiffOK(run, EA, EB) == run = ADifference(EA, EB)
CovDiffOK(run, EA, EB) == run = ACoveringDifference(EA, EB)
=============================================================================
