--------------------------------- MODULE MC ---------------------------------
(***************************************************************************)
(* Model-checking wrapper for one map: explores every sequence of events   *)
(* of the chosen alphabet over a small universe of prefixes, checks the    *)
(* properties on every state and every transition, and (optionally) prints *)
(* every transition as a JSON row for replay on the implementation.        *)
(***************************************************************************)
EXTENDS Events, Json, TLCExt

CONSTANTS ExplicitKeys, \* the key universe when KeyLen < 0
          KeyLen,      \* keys are all bit strings of length <= KeyLen
          Base,        \* ... prefixed by Base when non-empty (boundary universes)
          Hosts,       \* host tokens an argument may carry
          Vals,        \* values
          Acts,        \* alphabet: set of action names
          MaxCount,    \* state constraint: at most this many entries
          MaxNodes,    \* state constraint: at most this many tree nodes (root included)
          EmitActs,    \* print one JSON row per transition whose action is in this set
          EntryDepth,  \* maximal number of calls on one entry handle
          UseAfterRemove, \* TRUE: also explore OccupiedEntry calls after its remove() (finding F7)
          ViewAcct     \* TRUE: states differing in arena length / free-list size are distinct

VARIABLES m, abs, ev, ret, pan, aret, apan, hist, canon, drift
vars == <<m, abs, ev, ret, pan, aret, apan, hist, canon, drift>>

RECURSIVE BitSeqs(_)
BitSeqs(k) == IF k <= 0 THEN {<<>>}
              ELSE LET S == BitSeqs(k - 1) IN
                   S \cup {Append(s, 0) : s \in {t \in S : Len(t) = k - 1}}
                     \cup {Append(s, 1) : s \in {t \in S : Len(t) = k - 1}}
\* the key universe: all bit strings up to KeyLen (prefixed by Base), or -- for KeyLen < 0 -- an explicit set
\* (e.g. a chain four levels deep with its siblings: deeper than the complete universes can afford)
Keys  == IF KeyLen >= 0 THEN {<<>>} \cup {Base \o s : s \in BitSeqs(KeyLen)} ELSE ExplicitKeys
Pfxs  == {Pfx(n, h) : n \in Keys, h \in Hosts}
StoredKeys == {e.n : e \in abs}

\* sessions on one entry handle: up to EntryDepth calls, applicable to the handle's kind,
\* ending with the first consuming call; nothing after o_remove (that is finding F7)
OpArgs(o) == CASE o \in {"get", "key", "or_default", "o_key", "o_get", "o_remove", "v_key", "v_default"} -> {-1}
               [] o \in {"get_mut", "insert", "or_insert", "o_get_mut", "o_insert", "v_insert"} -> Vals
               [] o \in {"and_modify", "or_insert_with", "v_insert_with"} -> Vals \cup {PanicArg}
OpsFor(kind) == UNION {{[o |-> o, v |-> v] : v \in OpArgs(o)} :
                        o \in EntryOps \cup (IF kind = "O" THEN OccOps ELSE VacOps)}
RECURSIVE SeqsUpTo(_, _)
SeqsUpTo(S, n) == IF n = 0 THEN {<<>>}
                  ELSE {<<>>} \cup {<<x>> \o t : x \in {y \in S : y.o \notin Consuming /\ y.o # "o_remove"},
                                                t \in SeqsUpTo(S, n - 1) \ {<<>>}}
                              \cup {<<x>> : x \in S}
\* finding F7: an OccupiedEntry survives its own remove(); what the next call on it does
UARSeqs == {<<[o |-> "o_remove", v |-> -1], x>> :
               x \in {[o |-> "o_get", v |-> -1], [o |-> "o_remove", v |-> -1]}
                      \cup {[o |-> o, v |-> v] : o \in {"o_get_mut", "o_insert"}, v \in Vals}}
EntrySeqs(p) == SeqsUpTo(OpsFor(IF p.n \in StoredKeys THEN "O" ELSE "V"), EntryDepth)
                  \cup (IF UseAfterRemove /\ p.n \in StoredKeys THEN UARSeqs ELSE {})

EventsOf(a) ==
    CASE a = "Insert" -> {[a |-> a, p |-> p, v |-> v] : p \in Pfxs, v \in Vals}
      [] a \in {"Remove", "RemoveKeepTree", "RemoveChildren",
                "Get", "GetKV", "Contains", "Lpm", "Spm", "Cover", "Children"}
                      -> {[a |-> a, p |-> p] : p \in Pfxs}
      [] a \in {"Clear", "Iter", "Len", "CloneCheck", "Collect", "Serde", "Misc"} -> {[a |-> a]}
      [] a = "ViewDesc" -> {[a |-> a, p |-> p] : p \in Pfxs}
      [] a = "SplitOp" -> {[a |-> a, p |-> p, op |-> o] : p \in Pfxs, o \in {"Union", "Inter", "Diff", "CovDiff"}}
      [] a = "Alias" -> {[a |-> a, p |-> p, how |-> w] : p \in Pfxs, w \in {"iter", "split", "split_union"}}
      [] a = "Find" -> {[a |-> a, p |-> p, q |-> q, kind |-> k] :
                           p \in Pfxs, q \in Pfxs, k \in {"find", "find_exact", "find_lpm"}}
      \* view_at on a view (C11/C12: "view_at on a view equals find"): the "find" kind only
      [] a = "FindAt" -> {[a |-> "Find", p |-> p, q |-> q, kind |-> "find"] : p \in Pfxs, q \in Pfxs}
      [] a = "ViewSet" -> {[a |-> a, p |-> p, v |-> v] : p \in Pfxs, v \in Vals}
      [] a = "ViewRemove" -> {[a |-> a, p |-> p] : p \in Pfxs}
      [] a = "ViewValueMut" -> {[a |-> a, p |-> p, how |-> w] : p \in Pfxs, w \in {"value_mut", "prefix_value_mut"}}
      [] a = "ViewIterMut" -> {[a |-> a, p |-> p, k |-> k, how |-> w] :
                                  p \in Pfxs, k \in 0..Cardinality(abs), w \in {"iter_mut", "values_mut", "into_iter"}}
      [] a \in {"GetMut", "LpmMut"} -> {[a |-> a, p |-> p, v |-> v] : p \in Pfxs, v \in Vals}
      [] a \in {"IterMut", "ValuesMut"} -> {[a |-> a, k |-> k] : k \in 0..Cardinality(abs)}
      [] a = "ChildrenMut" -> {[a |-> a, p |-> p, k |-> k] : p \in Pfxs, k \in 0..Cardinality(abs)}
      [] a = "Entry" -> UNION {{[a |-> a, p |-> p, ops |-> ops] : ops \in EntrySeqs(p)} : p \in Pfxs}
      [] a = "Retain" -> {[a |-> a, keep |-> K, panicAt |-> 0] : K \in SUBSET StoredKeys}
      [] a = "RetainPanic" -> {[a |-> "Retain", keep |-> K, panicAt |-> k] :
                                   K \in SUBSET StoredKeys, k \in 1..Cardinality(StoredKeys)}
AllEvents == UNION {EventsOf(a) : a \in Acts}

Init == /\ m = EmptyMap /\ abs = {} /\ ev = [a |-> "Init"] /\ ret = <<>> /\ pan = FALSE
        /\ aret = <<>> /\ apan = FALSE /\ hist = <<>> /\ canon = TRUE /\ drift = 0

\* while the counter lags behind (drift < 0, finding F4) a removal would underflow it; the
\* model stops exploring removals there (the real code panics in debug builds)
EnabledUnderDrift(e) ==
    /\ drift >= 0 \/ e.a \in Observers \cup {"Insert", "Clear", "ViewSet", "ViewValueMut", "ViewIterMut", "GetMut"}
    /\ drift + DriftDelta(m, e) \in -1..1          \* bound of the exploration, not of the code
Next == \E e \in AllEvents :
          EnabledUnderDrift(e) /\
          LET r  == Apply(m, e)
              ar == AbsApply(abs, e, r)
          IN /\ m' = r.m /\ ret' = r.ret /\ pan' = r.pan
             /\ abs' = ar.E /\ aret' = ar.ret /\ apan' = ar.pan
             /\ ev' = e
             /\ hist' = IF e.a \in Observers THEN hist ELSE Append(hist, e)
             /\ canon' = IF IsClear(e) THEN TRUE ELSE canon /\ CanonKeeps(e)
             /\ drift' = IF IsClear(e) THEN 0 ELSE drift + DriftDelta(m, e)

Spec == Init /\ [][Next]_vars

View == IF ViewAcct THEN <<Tree(m), Len(m.a), Len(m.f), m.c, canon, drift>> ELSE <<Tree(m), m.c, canon, drift>>
Bound == Cardinality(abs) <= MaxCount /\ Cardinality(Reach(m)) <= MaxNodes

(* ---- state invariants ---------------------------------------------------- *)
InvWF        == WF(m) /\ IsTree(m)                           \* C15
InvPartition == Partition(m)                                 \* C16
InvCount     == m.c = NumValued(m) + drift                   \* C04 (drift # 0 only through finding F4)
InvRefines   == Entries(m) = abs                             \* C01, C18
InvCanon     == canon => CanonShape(m) /\ Compact(m)         \* C15

(* ---- transition properties (checked on every generated transition) ------- *)
RECURSIVE Shape(_, _)
Shape(mm, i) == IF i = 0 THEN <<>> ELSE <<mm.a[i].p.n, Shape(mm, mm.a[i].l), Shape(mm, mm.a[i].r)>>

StepRetOK  == /\ RetAgrees(ev', [ret |-> ret', pan |-> pan'], [ret |-> aret', pan |-> apan'], abs, canon, drift)     \* C01 ...
              \* the machine's own call order is one instance of the order-free outcome of a panicking retain (C20)
              /\ ev'.a = "Retain" /\ pan' => /\ RetainObservedOK(m, ev', ret')
                                             /\ Entries(RetainObserved(m, ev', ret').m) = Entries(m')
StepGrowOK == ~IsClear(ev') =>                                                     \* C16
                Len(m'.a) = MaxI(Len(m.a), Cardinality(Reach(m')))
StepShapeOK == ShapeKeeps(ev') => Shape(m', 1) = Shape(m, 1)                  \* C15
\* the arena machine refines the counter abstraction of Accounting.tla: an event that adds d nodes is d
\* Alloc steps (free slots first), one that removes d nodes is d Free steps
StepAcctOK == ~IsClear(ev') =>
    LET d == Cardinality(Reach(m')) - Cardinality(Reach(m)) IN
    IF d >= 0 THEN /\ Len(m'.f) = MaxI(0, Len(m.f) - d)
                   /\ Len(m'.a) = Len(m.a) + MaxI(0, d - Len(m.f))
              ELSE /\ Len(m'.f) = Len(m.f) - d
                   /\ Len(m'.a) = Len(m.a)
PropAcct  == [][StepAcctOK]_vars
PropRet   == [][StepRetOK]_vars
PropGrow  == [][StepGrowOK]_vars
PropShape == [][StepShapeOK]_vars

(* ---- emission ------------------------------------------------------------- *)
\* one row per distinct state (printed when the state is first found) ...
StateRow == [s |-> hist, f |-> Tree(m), fx |-> <<Len(m.a), Len(m.f), m.c>>, cn |-> canon, dr |-> drift]
EmitState == EmitActs # {} => PrintT(ToJson(StateRow))
\* ... and one row per generated transition whose action is selected
Row == IF ev'.a \in Observers
       THEN [h |-> hist, e |-> ev', r |-> ret', pn |-> pan']
       ELSE [h |-> hist, e |-> ev', r |-> ret', pn |-> pan',
             t |-> Tree(m'), x |-> <<Len(m'.a), Len(m'.f), m'.c>>, dr |-> drift', cn |-> canon',
             keeps |-> ShapeKeeps(ev')]
Emit == ev'.a \in EmitActs => PrintT(ToJson(Row))
=============================================================================
