-------------------------------- MODULE AlgV --------------------------------
(***************************************************************************)
(* C17: the prefix algebra of every shipped Prefix implementation,         *)
(* validated against Bits.tla.  A pure-function property: there is no      *)
(* state machine; TLC is used (a) to check the laws of the algebra on an   *)
(* exhaustive small universe (LawsOK) and (b) as the evaluator of the      *)
(* definitions on logged evaluations of the real operations (trace lines). *)
(*                                                                         *)
(* A logged value is [bits |-> all tw bits of the address exactly as the   *)
(* type stores them (host bits included), len |-> prefix length].          *)
(***************************************************************************)
EXTENDS Bits, Json, IOUtils, TLCExt, SequencesExt

Rec == ndJsonDeserialize(IOEnv.TRACE)
VARIABLE l

Net(v)    == SubSeq(v.bits, 1, v.len)
HostOf(v) == SubSeq(v.bits, v.len + 1, Len(v.bits))
Zeros(n)  == [i \in 1..n |-> 0]
AsPfx(v)  == Pfx(Net(v), ZeroHost)
B(b)      == IF b THEN 1 ELSE 0
ValidVal(v, tw) == Len(v.bits) = tw /\ v.len \in 0..tw

\* unary operations on one value
UnaryOK(e) ==
    LET p == e.p
        u == e.u
        tw == e.tw
    IN /\ ~u.pan
       /\ u.plen = p.len                                              \* prefix_len
       /\ u.mask = Net(p) \o Zeros(tw - p.len)                        \* mask(): network part, zeroed host part
       /\ Len(u.repr) = tw /\ SubSeq(u.repr, 1, p.len) = Net(p)      \* repr(): the network part is the prefix's (the
                                                                      \* property leaves its host part open)
       /\ u.bitset = {i \in 0..255 : BitAt(AsPfx(p), i)}            \* is_bit_set(i) for i in 0..=255
       /\ u.zero.len = 0                                              \* zero()
       /\ u.frl.len = p.len /\ Net(u.frl) = Net(p)                    \* from_repr_len(repr, len)
       /\ u.eqself = 1                                                \* eq is reflexive
       /\ u.containsself = 1                                          \* contains is reflexive

\* binary operations on two values of the same type
BinaryOK(e) ==
    LET p == AsPfx(e.p)
        q == AsPfx(e.q)
        b == e.b
        k == MinI(MinI(e.p.len, e.q.len), LcpLenN(p.n, q.n))
    IN /\ ~b.pan
       /\ b.contains = B(Covers(p, q))                                \* contains = bitwise coverage of network parts
       /\ b.contains_rev = B(Covers(q, p))
       /\ b.eq = B(KeyEq(p, q))                                       \* eq: network part and length only
       /\ b.lcp.len = k                                               \* longest_common_prefix
       /\ Net(b.lcp) = SubSeq(p.n, 1, k)
       /\ HostOf(b.lcp) = Zeros(e.tw - k)                             \* zeroed host part
       /\ b.lcp_rev.len = k /\ Net(b.lcp_rev) = SubSeq(p.n, 1, k)     \* symmetric
       /\ HostOf(b.lcp_rev) = Zeros(e.tw - k)

LineOK(e) == IF e.a = "AlgU" THEN UnaryOK(e) ELSE BinaryOK(e)

\* JSON has no sets: the bit indices arrive as a sequence
NormE(e) == IF e.a = "AlgU" THEN [e EXCEPT !.u.bitset = {@[i] : i \in 1..Len(@)}] ELSE e

Init == l = 1
Next == l <= Len(Rec) /\ LineOK(NormE(Rec[l])) /\ l' = l + 1
Track == TLCSet(1, l)
Accepted == IF TLCGet(1) = Len(Rec) + 1 THEN TRUE
            ELSE PrintT(<<"TRACE-REJECTED-AT-LINE", TLCGet(1), "OF", Len(Rec)>>) /\ FALSE

(***************************************************************************)
(* (a) the laws, exhaustively for every width up to MaxTW                  *)
(***************************************************************************)
CONSTANT MaxTW
RECURSIVE BitStrings(_)
BitStrings(n) == IF n = 0 THEN {<<>>} ELSE {Append(s, b) : s \in BitStrings(n - 1), b \in {0, 1}}
Universe(tw) == {Pfx(n, h) : n \in UNION {BitStrings(k) : k \in 0..tw}, h \in {"0", "1"}}
LawsOK == \A tw \in 1..MaxTW :
            LET U == Universe(tw) IN
            CoversRefl(U) /\ CoversAntisym(U) /\ CoversTrans(U) /\ LcpLaws(U) /\ OrderLaws(U)
LawInit == l = 0
LawNext == l = 0 /\ Assert(LawsOK, "a law of the prefix algebra fails") /\ l' = 1
=============================================================================
