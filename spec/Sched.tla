-------------------------------- MODULE Sched --------------------------------
(***************************************************************************)
(* C14, third part: workers that own disjoint sub-views of one map and     *)
(* write through them concurrently.  Every worker performs one write step  *)
(* per entry of its region (new = old + Delta(worker)).  TLC explores all  *)
(* interleavings and checks that the final map is the sequential result    *)
(* and that a step never observes a value another worker produced.         *)
(* The same Step validates logs recorded from real threads (SchedNextT).   *)
(***************************************************************************)
EXTENDS Integers, Sequences, FiniteSets, TLC, Json, IOUtils, TLCExt

CONSTANTS Regions   \* sequence of sequences of entry ids: Regions[w] = the entries worker w visits, in order

Workers == 1..Len(Regions)
AllEntries == UNION {{Regions[w][i] : i \in 1..Len(Regions[w])} : w \in Workers}
Delta(w) == 100 * w

VARIABLES val, pc,       \* val[e]: current value;  pc[w]: how many steps worker w has done
          tv, tl, seen   \* (used by the validation of logs only)
varsS == <<val, pc>>
varsT == <<tv, tl, seen>>

InitS == val = [e \in AllEntries |-> 1] /\ pc = [w \in Workers |-> 0] /\ tv = <<>> /\ tl = 0 /\ seen = {}
StepS(w) == /\ pc[w] < Len(Regions[w])
            /\ LET e == Regions[w][pc[w] + 1] IN val' = [val EXCEPT ![e] = @ + Delta(w)]
            /\ pc' = [pc EXCEPT ![w] = @ + 1]
NextS == (\E w \in Workers : StepS(w)) /\ UNCHANGED varsT

Disjoint == \A a, b \in Workers : a # b =>
              {Regions[a][i] : i \in 1..Len(Regions[a])} \cap {Regions[b][i] : i \in 1..Len(Regions[b])} = {}
Done == \A w \in Workers : pc[w] = Len(Regions[w])
\* the sequential result: every entry written exactly once by its owner
SeqResult == [e \in AllEntries |-> 1 + Delta(CHOOSE w \in Workers : \E i \in 1..Len(Regions[w]) : Regions[w][i] = e)]
InvFinal == Done => val = SeqResult
\* a step only ever sees the initial value of the entry it writes (nobody else touched it)
InvIsolated == \A w \in Workers : pc[w] < Len(Regions[w]) => val[Regions[w][pc[w] + 1]] = 1
ASSUME Disjoint

(***************************************************************************)
(* Validation of logs of real threads: lines                                *)
(*   {"a":"Init","E":[{k,v}...]}  {"a":"W","w":i,"k":key,"old":o,"new":n}   *)
(*   {"a":"Final","E":[...]}                                                *)
(* Keys are arbitrary (bit arrays); the per-worker logs are concatenated   *)
(* in any order -- every order must be explainable.                         *)
(***************************************************************************)
RecS == ndJsonDeserialize(IOEnv.TRACE)
ToMap(es) == [k \in {es[i].k : i \in 1..Len(es)} |-> (CHOOSE i \in 1..Len(es) : es[i].k = k)]
ValOf(es, k) == es[CHOOSE i \in 1..Len(es) : es[i].k = k].v
InitT == tv = <<>> /\ tl = 1 /\ seen = {} /\ val = <<>> /\ pc = <<>>
NextT == /\ tl <= Len(RecS)
         /\ LET e == RecS[tl] IN
            CASE e.a = "Init"  -> tv' = e.E /\ seen' = {}
              [] e.a = "W"     -> /\ \E i \in 1..Len(tv) : tv[i].k = e.k
                                  /\ e.k \notin seen                          \* each entry handed to one worker, once
                                  /\ ValOf(tv, e.k) = e.old                   \* nobody else wrote it
                                  /\ tv' = [i \in 1..Len(tv) |-> IF tv[i].k = e.k THEN [k |-> e.k, v |-> e.new] ELSE tv[i]]
                                  /\ seen' = seen \cup {e.k}
              [] e.a = "Final" -> /\ Len(e.E) = Len(tv)
                                  /\ \A i \in 1..Len(tv) : e.E[i] = tv[i]     \* same contents, same order
                                  /\ \A k \in {x.k : x \in {e.cover[j] : j \in 1..Len(e.cover)}} : k \in seen
                                  /\ Cardinality(seen) = Len(e.cover)          \* exactly the entries of the regions were written
                                  /\ UNCHANGED <<tv, seen>>
         /\ tl' = tl + 1
         /\ UNCHANGED varsS
TrackT == TLCSet(1, tl)
AcceptedT == IF TLCGet(1) = Len(RecS) + 1 THEN TRUE
             ELSE PrintT(<<"TRACE-REJECTED-AT-LINE", TLCGet(1), "OF", Len(RecS)>>) /\ FALSE
=============================================================================
