------------------------------- MODULE Borrow -------------------------------
(***************************************************************************)
(* C14: which client programs may hold which handles at the same time.    *)
(*                                                                         *)
(* A program is a sequence of statements over handles.  Handle 0 is        *)
(* `map: &mut PrefixMap<P, T>`.  A statement either creates handles from   *)
(* an existing one by a public API call, or uses a handle.  The trie is a  *)
(* fixed one:  t = 0/0 (stored),  a1 = 0/1, a2 = 00/2 (below a1),          *)
(* b1 = 1/1;  a *region* is the set of entries a handle can reach.         *)
(*                                                                         *)
(* Two judgements:                                                         *)
(*   AliasFree  semantic, independent of the receiver types: no handle     *)
(*              that can reach an entry mutably is used while another      *)
(*              handle reaching the same entry is still going to be used   *)
(*   Typed      what the borrow checker must conclude from the receiver    *)
(*              modes the API declares (by value / &mut / & / yielded)     *)
(* TLC checks Typed => AliasFree (the API design is sound) for every       *)
(* enumerated program and prints the programs; the harness asks rustc:     *)
(* a program that is NOT AliasFree must not compile.                       *)
(***************************************************************************)
EXTENDS Integers, Sequences, FiniteSets, TLC, Json

CONSTANTS MaxStmts, MaxCreates, Ops, EmitProgs

Whole == {"t", "a1", "a2", "b1"}
SubRegion(R, side) ==
    CASE side = "left"  -> IF R = Whole THEN {"a1", "a2"} ELSE IF R = {"a1", "a2"} THEN {"a2"} ELSE {}
      [] side = "right" -> IF R = Whole THEN {"b1"} ELSE {}
      [] side = "find_a1" -> IF "a1" \in R THEN R \cap {"a1", "a2"} ELSE {}
RootEntry(R) == IF R = Whole THEN {"t"} ELSE IF R = {"a1", "a2"} THEN {"a1"} ELSE IF R = {"a2"} THEN {"a2"}
                ELSE IF R = {"b1"} THEN {"b1"} ELSE {}
\* the k-th entry an iterator over R yields (lexicographic order t < a1 < a2 < b1)
Order == <<"t", "a1", "a2", "b1">>
Yielded(R, k) == LET s == SelectSeq(Order, LAMBDA x : x \in R) IN IF k <= Len(s) THEN {s[k]} ELSE {}

(***************************************************************************)
(* The API: every creating call with the kind of handle it needs, the      *)
(* kind(s) it returns, the receiver mode and the capability of the result. *)
(*   how: "move" (self), "bmut" (&mut self), "bshr" (&self),               *)
(*        "yield" (item of an iterator: borrows what the iterator borrows),*)
(*        "copy"  (&self on a Copy-like read-only view: independent of the *)
(*                 receiver, borrows what the receiver borrows)            *)
(***************************************************************************)
Api == {
  [op |-> "view_mut",     from |-> "Map",     to |-> "ViewMut", how |-> "bmut",  cap |-> "mut", reg |-> "same"],
  [op |-> "view",         from |-> "Map",     to |-> "View",    how |-> "bshr",  cap |-> "shr", reg |-> "same"],
  [op |-> "iter_mut",     from |-> "Map",     to |-> "IterMut", how |-> "bmut",  cap |-> "mut", reg |-> "same"],
  [op |-> "iter",         from |-> "Map",     to |-> "Iter",    how |-> "bshr",  cap |-> "shr", reg |-> "same"],
  [op |-> "get_mut",      from |-> "Map",     to |-> "RefMut",  how |-> "bmut",  cap |-> "mut", reg |-> "a1"],
  [op |-> "get",          from |-> "Map",     to |-> "Ref",     how |-> "bshr",  cap |-> "shr", reg |-> "a1"],
  [op |-> "entry",        from |-> "Map",     to |-> "Entry",   how |-> "bmut",  cap |-> "mut", reg |-> "a1"],
  [op |-> "left",         from |-> "ViewMut", to |-> "ViewMut", how |-> "move",  cap |-> "mut", reg |-> "left"],
  [op |-> "right",        from |-> "ViewMut", to |-> "ViewMut", how |-> "move",  cap |-> "mut", reg |-> "right"],
  [op |-> "find",         from |-> "ViewMut", to |-> "ViewMut", how |-> "move",  cap |-> "mut", reg |-> "find_a1"],
  [op |-> "split",        from |-> "ViewMut", to |-> "ViewMut2", how |-> "move", cap |-> "mut", reg |-> "split"],
  [op |-> "vm_iter_mut",  from |-> "ViewMut", to |-> "IterMut", how |-> "bmut",  cap |-> "mut", reg |-> "same"],
  [op |-> "vm_into_iter", from |-> "ViewMut", to |-> "IterMut", how |-> "move",  cap |-> "mut", reg |-> "same"],
  [op |-> "vm_view",      from |-> "ViewMut", to |-> "View",    how |-> "bshr",  cap |-> "shr", reg |-> "same"],
  [op |-> "vm_value_mut", from |-> "ViewMut", to |-> "RefMut",  how |-> "bmut",  cap |-> "mut", reg |-> "root"],
  [op |-> "vm_value",     from |-> "ViewMut", to |-> "Ref",     how |-> "bshr",  cap |-> "shr", reg |-> "root"],
  \* the _mut set operations: &mut self plus a second mutable view taken by value (impl AsViewMut) ...
  [op |-> "union_mut",    from |-> "ViewMut", to |-> "SetMut",  how |-> "bmut",  cap |-> "mut", reg |-> "both", from2 |-> "ViewMut", how2 |-> "move"],
  [op |-> "inter_mut",    from |-> "ViewMut", to |-> "SetMut",  how |-> "bmut",  cap |-> "mut", reg |-> "both", from2 |-> "ViewMut", how2 |-> "move"],
  \* ... or a read-only operand (impl AsView): a shared borrow of a second mutable view
  [op |-> "diff_mut",     from |-> "ViewMut", to |-> "SetMut",  how |-> "bmut",  cap |-> "mut", reg |-> "same", from2 |-> "ViewMut", how2 |-> "bshr"],
  [op |-> "v_left",       from |-> "View",    to |-> "View",    how |-> "copy",  cap |-> "shr", reg |-> "left"],
  [op |-> "v_iter",       from |-> "View",    to |-> "Iter",    how |-> "copy",  cap |-> "shr", reg |-> "same"],
  [op |-> "next_mut",     from |-> "IterMut", to |-> "RefMut",  how |-> "yield", cap |-> "mut", reg |-> "next"],
  [op |-> "next",         from |-> "Iter",    to |-> "Ref",     how |-> "yield", cap |-> "shr", reg |-> "next"] }
ApiOf(op) == CHOOSE a \in Api : a.op = op
Binary(a) == "from2" \in DOMAIN a

(***************************************************************************)
(* Handles.  handle i = [kind, region, cap, par (the handle whose use       *)
(* conflicts with this one: the receiver, or for yield/copy the receiver's *)
(* own guardian), how, born (statement index), nyield]                     *)
(***************************************************************************)
Map0 == [kind |-> "Map", region |-> Whole, cap |-> "mut", par |-> 0, how |-> "root", born |-> 0, ny |-> 0, recv |-> 0, par2 |-> 0, how2 |-> "none"]

VARIABLES prog, hs     \* statements so far; handle table (sequence, handle 0 is hs[1])
vars == <<prog, hs>>

H(i) == hs[i + 1]
NH == Len(hs) - 1      \* highest handle index

RegionOf(a, src) ==
    CASE a.reg = "same" -> H(src).region
      [] a.reg = "a1"   -> {"a1"}
      [] a.reg = "root" -> RootEntry(H(src).region)
      [] a.reg = "next" -> Yielded(H(src).region, H(src).ny + 1)
      [] OTHER          -> SubRegion(H(src).region, a.reg)

\* the handle a new handle answers to: the receiver, except for items of an iterator and for
\* copies of read-only views, which live as long as what the *receiver* borrowed
Guardian(a, src) == IF a.how \in {"yield", "copy"} THEN H(src).par ELSE src

NewHandle(a, src, region, stmt) ==
    [kind |-> a.to, region |-> region, cap |-> a.cap, par |-> Guardian(a, src), how |-> a.how, born |-> stmt, ny |-> 0, recv |-> src,
     par2 |-> 0, how2 |-> "none"]

CreateStmts ==
    {[s |-> "create", op |-> a.op, src |-> i] : a \in {x \in Api : x.op \in Ops /\ ~Binary(x)}, i \in 0..NH}
    \cup {[s |-> "create", op |-> a.op, src |-> i, src2 |-> j] : a \in {x \in Api : x.op \in Ops /\ Binary(x)}, i \in 1..NH, j \in 1..NH}
UseStmts == {[s |-> u, src |-> i] : u \in {"use", "use_mut"}, i \in 1..NH}

NumCreates == Cardinality({k \in 1..Len(prog) : prog[k].s = "create"})

Applicable(st) ==
    IF st.s = "create" THEN /\ ApiOf(st.op).from = H(st.src).kind /\ NumCreates < MaxCreates
                            /\ Binary(ApiOf(st.op)) => st.src2 # st.src /\ ApiOf(st.op).from2 = H(st.src2).kind
    ELSE \* a write through a handle that only reads makes no sense
         st.s = "use" \/ H(st.src).cap = "mut"

Init == prog = <<>> /\ hs = <<Map0>>
Next == /\ Len(prog) < MaxStmts
        /\ \E st \in CreateStmts \cup UseStmts :
             /\ Applicable(st)
             /\ prog' = Append(prog, st)
             /\ IF st.s = "create"
                THEN LET a == ApiOf(st.op)
                         k == Len(prog) + 1
                     IN IF a.to = "ViewMut2"
                        THEN hs' = [hs EXCEPT ![st.src + 1].ny = @] \o
                                   <<NewHandle([a EXCEPT !.to = "ViewMut"], st.src, SubRegion(H(st.src).region, "left"), k),
                                     NewHandle([a EXCEPT !.to = "ViewMut"], st.src, SubRegion(H(st.src).region, "right"), k)>>
                        ELSE IF Binary(a)
                        THEN hs' = hs \o <<[NewHandle(a, st.src, IF a.reg = "both" THEN H(st.src).region \cup H(st.src2).region
                                                                    ELSE H(st.src).region, k)
                                              EXCEPT !.par2 = st.src2, !.how2 = a.how2]>>
                        ELSE hs' = [hs EXCEPT ![st.src + 1].ny = IF a.how = "yield" THEN @ + 1 ELSE @] \o
                                   <<NewHandle(a, st.src, RegionOf(a, st.src), k)>>
                ELSE hs' = hs

(***************************************************************************)
(* Judgements on a complete program                                        *)
(***************************************************************************)
\* statements at which handle i is touched: used, or a call is made on it
Touches(i) == {k \in 1..Len(prog) : prog[k].src = i \/ ("src2" \in DOMAIN prog[k] /\ prog[k].src2 = i)}
\* the handles statement k touches
Touched(k) == {prog[k].src} \cup (IF "src2" \in DOMAIN prog[k] THEN {prog[k].src2} ELSE {})
\* ... with write access to entries: a write, or a call that hands out a write-capable handle
MutTouch(k) == \/ prog[k].s = "use_mut"
               \/ prog[k].s = "create" /\ ApiOf(prog[k].op).cap = "mut"
\* ... through handle x in particular (the read-only operand of difference_mut is only read)
MutTouchOf(k, x) == IF "src2" \in DOMAIN prog[k] /\ prog[k].src2 = x /\ prog[k].src # x
                    THEN ApiOf(prog[k].op).how2 = "move" ELSE MutTouch(k)

RECURSIVE Anc(_, _)
Anc(i, j) == \* i is a proper ancestor of j along the guardian relation(s)
    IF j = 0 THEN FALSE
    ELSE \/ H(j).par = i \/ Anc(i, H(j).par)
         \/ H(j).par2 # 0 /\ (H(j).par2 = i \/ Anc(i, H(j).par2))
\* last statement at which handle i or anything guarded by it is touched
LastNeed(i) == LET S == UNION {Touches(j) : j \in {x \in 0..NH : x = i \/ Anc(i, x)}} IN
               IF S = {} THEN H(i).born ELSE CHOOSE k \in S : \A l \in S : l <= k
Overlap(i, j) == H(i).region \cap H(j).region # {}
Conflicting(i, j) == Overlap(i, j) /\ ("mut" \in {H(i).cap, H(j).cap})

\* what an iterator can still reach at statement k: its region minus what it has already yielded
YieldedBefore(x, k) == UNION {H(z).region : z \in {w \in 1..NH : H(w).recv = x /\ H(w).how = "yield" /\ H(w).born < k}}
RegionAt(x, k) == IF H(x).kind \in {"IterMut", "Iter"} THEN H(x).region \ YieldedBefore(x, k) ELSE H(x).region

\* AliasFree (semantic, ignores receiver types): statement k touches handle x while another handle y
\* that reaches a common entry is still needed -- a hazard if y can write, or if the touch writes.
\* Touching something y itself guards is not a hazard (y is merely suspended meanwhile).
HazardOf(k, x, y) ==
    /\ y # x /\ ~Anc(y, x)
    /\ H(y).born < k /\ k <= LastNeed(y)
    /\ RegionAt(x, k) \cap RegionAt(y, k) # {}
    /\ (H(y).cap = "mut" \/ MutTouchOf(k, x))
\* a binary operation whose two operands reach a common entry aliases by itself
SelfAlias(k) == /\ "src2" \in DOMAIN prog[k]
                /\ RegionAt(prog[k].src, k) \cap RegionAt(prog[k].src2, k) # {}
AliasFree == \A k \in 1..Len(prog) : /\ ~SelfAlias(k)
                                       /\ \A x \in Touched(k) : \A y \in 1..NH : ~HazardOf(k, x, y)

\* Typed (the borrow checker, from the receiver modes only; regions play no role): the receiver
\* has not been moved out, and nothing that still borrows from it is invalidated by this touch.
MovedBefore(x, k) == \E k2 \in 1..(k - 1) :
                        /\ prog[k2].s = "create"
                        /\ \/ prog[k2].src = x /\ ApiOf(prog[k2].op).how = "move"
                           \/ "src2" \in DOMAIN prog[k2] /\ prog[k2].src2 = x /\ ApiOf(prog[k2].op).how2 = "move"
\* the loan by which a direct dependant z holds on to x is a shared one
DirectChild(z, x) == H(z).par = x \/ H(z).par2 = x
LinkShared(z, x) == IF H(z).par2 = x /\ H(z).par # x THEN H(z).how2 = "bshr" ELSE H(z).cap = "shr"
MovedInto(z, x) == \/ H(z).recv = x /\ H(z).how = "move"
                   \/ H(z).par2 = x /\ H(z).how2 = "move"
Typed ==
    \A k \in 1..Len(prog) : \A x \in Touched(k) :
      /\ ~MovedBefore(x, k)
      /\ \A z \in 1..NH :
           (DirectChild(z, x) /\ ~MovedInto(z, x) /\ H(z).born < k /\ k <= LastNeed(z))
              => (LinkShared(z, x) /\ ~MutTouchOf(k, x))

Sound == Typed => AliasFree

(***************************************************************************)
(* Thread capabilities.  For a handle kind K over value type T: may a K be *)
(* moved to another thread (Send) / shared by reference between threads    *)
(* (Sync)?  The judgement depends only on what K can give access to.       *)
(***************************************************************************)
Kinds == {"PrefixMap", "RefPrefixMap", "MutPrefixMap", "PrefixSetLike", "TrieView", "TrieViewMut", "Iter", "IterMut",
          "IntoIter", "Keys", "Values", "ValuesMut", "Cover", "Union", "UnionMut", "Intersection", "IntersectionMut",
          "Difference", "DifferenceMut", "CoveringDifference", "CoveringDifferenceMut", "Entry"}
\* kinds through which a T can be moved out, replaced or written (exclusive access to entries)
GivesMut == {"PrefixMap", "MutPrefixMap", "TrieViewMut", "IterMut", "IntoIter", "ValuesMut", "UnionMut", "IntersectionMut",
             "DifferenceMut", "CoveringDifferenceMut", "Entry"}
\* kinds that hold shared access to entries that the sending thread may keep using
SharesWithSender == {"RefPrefixMap", "TrieView", "Iter", "Keys", "Values", "Cover", "Union", "Intersection", "Difference",
                     "CoveringDifference", "DifferenceMut", "CoveringDifferenceMut"}
ValueTypes == {"SendSync", "SendOnly", "SyncOnly", "Neither"}
TSend(t) == t \in {"SendSync", "SendOnly"}
TSync(t) == t \in {"SendSync", "SyncOnly"}
\* moving a K to another thread is sound iff ...
SendSound(k, t) == /\ (k \in GivesMut => TSend(t))
                   /\ (k \in SharesWithSender => TSync(t))
\* sharing &K between threads is sound iff every thread may read the values concurrently
SyncSound(k, t) == TSync(t)
\* kinds that BORROW exclusive access (the owner kinds PrefixMap / IntoIter copy their entries when duplicated):
\* a duplicate of such a handle is a second live handle with exclusive access to the same entries, i.e. exactly
\* the Hazard of the program part above, reachable in one statement (`h.clone()`) - so the kind must not be
\* Clone (nor Copy, which implies Clone).
Exclusive == GivesMut \ {"PrefixMap", "IntoIter"}
DupSound(k) == k \notin Exclusive
ThreadRows == {[kind |-> k, t |-> t, check |-> c, sound |-> IF c = "Send" THEN SendSound(k, t) ELSE SyncSound(k, t)] :
                 k \in Kinds \ {"PrefixSetLike"}, t \in ValueTypes, c \in {"Send", "Sync"}}
              \cup {[kind |-> k, t |-> "SendSync", check |-> "Clone", sound |-> DupSound(k)] : k \in Kinds \ {"PrefixSetLike"}}
EmitThreads == Len(prog) = 0 /\ EmitProgs => PrintT(ToJson([threads |-> ThreadRows]))

ProgRow == [prog |-> prog, aliasfree |-> AliasFree, typed |-> Typed,
            handles |-> [i \in 1..NH |-> [kind |-> H(i).kind, region |-> H(i).region, cap |-> H(i).cap, par |-> H(i).par]]]
EmitProg == EmitProgs /\ Len(prog) > 0 => PrintT(ToJson(ProgRow))
=============================================================================
