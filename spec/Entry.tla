------------------------------- MODULE Entry -------------------------------
(***************************************************************************)
(* The entry API (src/map/entry.rs) as a session on a handle.              *)
(*                                                                         *)
(* While an Entry / VacantEntry / OccupiedEntry is alive the map is        *)
(* mutably borrowed, so the whole session  map.entry(p).op1().op2()...     *)
(* is one atomic event [a |-> "Entry", p |-> prefix, ops |-> <<op...>>].   *)
(* An op is [o |-> name, v |-> argument]; v = PanicArg means "the closure  *)
(* passed to this call panics".  The session ends with the first consuming *)
(* op, with a panic, or when the ops are exhausted (handle dropped).       *)
(*                                                                         *)
(* Handle: [k |-> "V" | "O", idx, d]  (VacantEntry stores idx + direction, *)
(* OccupiedEntry stores the node).                                         *)
(***************************************************************************)
EXTENDS Trie, Abs

PanicArg == -2
EntryOps   == {"get", "get_mut", "key", "and_modify", "insert", "or_insert", "or_insert_with", "or_default"}
OccOps     == {"o_key", "o_get", "o_get_mut", "o_insert", "o_remove"}
VacOps     == {"v_key", "v_insert", "v_insert_with", "v_default"}
Consuming  == {"insert", "or_insert", "or_insert_with", "or_default", "o_insert",
               "v_insert", "v_insert_with", "v_default"}

EntryOpen(m, p) ==                                      \* PrefixMap::entry
    LET w == WalkIns(m, 1, p) IN
    IF w.d.k = "Reached" /\ m.a[w.idx].v # NoVal
    THEN [k |-> "O", idx |-> w.idx, d |-> w.d]
    ELSE [k |-> "V", idx |-> w.idx, d |-> w.d]

\* one op: [m, h (handle or "X" when consumed), ret, pan]
OpRes(m, h, ret) == [m |-> m, h |-> h, ret |-> ret, pan |-> FALSE]
OpPanic(m) == [m |-> m, h |-> [k |-> "X"], ret |-> <<>>, pan |-> TRUE]
Gone == [k |-> "X"]

VacInsert(m, h, p, v) ==                                \* VacantEntry::_insert
    Place(m, h.idx, h.d, p, v).m

EntryOp(m, h, p, op) ==
    LET node == m.a[h.idx]
        val  == node.v
        o    == op.o
        v    == op.v
    IN
    IF h.k = "V" THEN
        CASE o = "get"            -> OpRes(m, h, <<>>)
          [] o = "get_mut"        -> OpRes(m, h, <<>>)
          [] o = "key"            -> OpRes(m, h, <<p>>)
          [] o = "v_key"          -> OpRes(m, h, <<p>>)
          [] o = "and_modify"     -> OpRes(m, h, <<>>)
          [] o = "insert"         -> OpRes(VacInsert(m, h, p, v), Gone, <<>>)
          [] o \in {"or_insert", "v_insert"} -> OpRes(VacInsert(m, h, p, v), Gone, <<v>>)
          [] o \in {"or_insert_with", "v_insert_with"} ->
                 IF v = PanicArg THEN OpPanic(m) ELSE OpRes(VacInsert(m, h, p, v), Gone, <<v>>)
          [] o \in {"or_default", "v_default"} -> OpRes(VacInsert(m, h, p, 0), Gone, <<0>>)
    ELSE \* occupied: the handle points at node h.idx; `val` may be NoVal after o_remove
        CASE o = "get"            -> OpRes(m, h, Opt(val))
          [] o = "get_mut"        -> IF val = NoVal THEN OpRes(m, h, <<>>)
                                     ELSE OpRes([m EXCEPT !.a[h.idx].v = v], h, <<val>>)
          [] o \in {"key", "o_key"} -> OpRes(m, h, <<node.p>>)
          [] o = "and_modify"     -> IF val = NoVal THEN OpRes(m, h, <<>>)
                                     ELSE IF v = PanicArg THEN OpPanic(m)
                                     ELSE OpRes([m EXCEPT !.a[h.idx].v = v], h, <<>>)
          [] o \in {"insert", "o_insert"} ->
                 \* OccupiedEntry::insert: replace prefix, replace value, unwrap the old one
                 LET m1 == [m EXCEPT !.a[h.idx].p = p, !.a[h.idx].v = v] IN
                 IF val = NoVal THEN OpPanic(m1) ELSE OpRes(m1, Gone, <<val>>)
          [] o = "or_insert"      -> IF val = NoVal THEN OpRes([m EXCEPT !.a[h.idx].v = v], Gone, <<v>>)
                                     ELSE OpRes(m, Gone, <<val>>)
          [] o = "or_insert_with" -> IF val # NoVal THEN OpRes(m, Gone, <<val>>)
                                     ELSE IF v = PanicArg THEN OpPanic(m)
                                     ELSE OpRes([m EXCEPT !.a[h.idx].v = v], Gone, <<v>>)
          [] o = "or_default"     -> IF val = NoVal THEN OpRes([m EXCEPT !.a[h.idx].v = 0], Gone, <<0>>)
                                     ELSE OpRes(m, Gone, <<val>>)
          [] o = "o_get"          -> IF val = NoVal THEN OpPanic(m) ELSE OpRes(m, h, <<val>>)
          [] o = "o_get_mut"      -> IF val = NoVal THEN OpPanic(m)
                                     ELSE OpRes([m EXCEPT !.a[h.idx].v = v], h, <<val>>)
          [] o = "o_remove"       -> IF val = NoVal THEN OpPanic(m)
                                     ELSE OpRes([m EXCEPT !.a[h.idx].v = NoVal, !.c = @ - 1], h, <<val>>)

RECURSIVE EntryFold(_, _, _, _, _)
EntryFold(m, h, p, ops, rets) ==
    IF ops = <<>> \/ h.k = "X" THEN [m |-> m, ret |-> rets, pan |-> FALSE]
    ELSE LET r == EntryOp(m, h, p, Head(ops)) IN
         IF r.pan THEN [m |-> r.m, ret |-> rets, pan |-> TRUE]
         ELSE EntryFold(r.m, r.h, p, Tail(ops), Append(rets, r.ret))

EntrySession(m, p, ops) == EntryFold(m, EntryOpen(m, p), p, ops, <<>>)

(***************************************************************************)
(* The same session on the abstract map.  k = "O" iff the key is stored.   *)
(* After o_remove the handle is "R" (removed): the abstract map says what  *)
(* a later op on that handle must *not* do (panic) -- see AEntryOp.        *)
(***************************************************************************)
AEntryOp(E, k, p, op) ==
    LET o == op.o
        v == op.v
        has == AHas(E, p.n)
        cur == IF has THEN AGet(E, p.n) ELSE [n |-> p.n, h |-> p.h, v |-> ANoVal]
        Keep(ret) == [E |-> E, k |-> k, ret |-> ret, pan |-> FALSE]
        Done(E2, ret) == [E |-> E2, k |-> "X", ret |-> ret, pan |-> FALSE]
        Boom == [E |-> E, k |-> "X", ret |-> <<>>, pan |-> TRUE]
    IN
    IF k = "V" THEN
        CASE o \in {"get", "get_mut", "and_modify"} -> Keep(<<>>)
          [] o \in {"key", "v_key"}                 -> Keep(<<p>>)
          [] o = "insert"                           -> Done(APut(E, p, v), <<>>)
          [] o \in {"or_insert", "v_insert"}        -> Done(APut(E, p, v), <<v>>)
          [] o \in {"or_insert_with", "v_insert_with"} ->
                 IF v = PanicArg THEN Boom ELSE Done(APut(E, p, v), <<v>>)
          [] o \in {"or_default", "v_default"}      -> Done(APut(E, p, 0), <<0>>)
    ELSE \* "O": stored
        CASE o = "get"                -> Keep(<<cur.v>>)
          [] o \in {"get_mut", "o_get_mut"} -> [E |-> ASetVal(E, p.n, v), k |-> k, ret |-> <<cur.v>>, pan |-> FALSE]
          [] o \in {"key", "o_key"}   -> Keep(<<Pfx(cur.n, cur.h)>>)
          [] o = "and_modify"         -> IF v = PanicArg THEN Boom
                                         ELSE [E |-> ASetVal(E, p.n, v), k |-> k, ret |-> <<>>, pan |-> FALSE]
          [] o \in {"insert", "o_insert"} -> Done(APut(E, p, v), <<cur.v>>)
          [] o \in {"or_insert", "or_insert_with", "or_default"} -> Done(E, <<cur.v>>)
          [] o = "o_get"              -> Keep(<<cur.v>>)
          [] o = "o_remove"           -> [E |-> {x \in E : x.n # p.n}, k |-> "R", ret |-> <<cur.v>>, pan |-> FALSE]

RECURSIVE AEntryFold(_, _, _, _, _)
AEntryFold(E, k, p, ops, rets) ==
    IF ops = <<>> \/ k \in {"X", "R"} THEN [E |-> E, ret |-> rets, pan |-> FALSE]
    ELSE LET r == AEntryOp(E, k, p, Head(ops)) IN
         IF r.pan THEN [E |-> r.E, ret |-> rets, pan |-> TRUE]
         ELSE AEntryFold(r.E, r.k, p, Tail(ops), Append(rets, r.ret))

AEntrySession(E, p, ops) == AEntryFold(E, IF AHas(E, p.n) THEN "O" ELSE "V", p, ops, <<>>)

\* Is `ops` a session the abstract map gives a meaning to?  (Nothing may follow o_remove:
\* using an OccupiedEntry after its remove() is the known finding F7.)
RECURSIVE NoUseAfterRemove(_)
NoUseAfterRemove(ops) == \/ ops = <<>>
                         \/ /\ Head(ops).o = "o_remove" => Len(ops) = 1
                            /\ NoUseAfterRemove(Tail(ops))
=============================================================================
