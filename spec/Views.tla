------------------------------- MODULE Views -------------------------------
(***************************************************************************)
(* Sub-trie views (src/trieview/mod.rs).  A view location is               *)
(*    [k |-> "Node", i |-> slot]            a real node                    *)
(*    [k |-> "Virt", p |-> prefix, i |-> slot]  a virtual position on the  *)
(*                                          edge above node i              *)
(* TrieView and TrieViewMut share these definitions (the mutable view      *)
(* consumes itself and hands the original back on failure; that protocol   *)
(* is in the events, not here).                                            *)
(***************************************************************************)
EXTENDS Trie, Abs

NodeLoc(i) == [k |-> "Node", i |-> i]
VirtLoc(p, i) == [k |-> "Virt", p |-> p, i |-> i]
RootLoc == NodeLoc(1)

LocPrefix(m, loc) == IF loc.k = "Node" THEN m.a[loc.i].p ELSE loc.p        \* prefix()
LocValue(m, loc)  == IF loc.k = "Node" THEN Opt(m.a[loc.i].v) ELSE <<>>    \* value()
LocIter(m, loc)   == IterFrom(m, <<loc.i>>)                                 \* iter()/keys()/values()

\* the descent loop shared by TrieView::find and TrieViewMut::find
RECURSIVE FindLoop(_, _, _)
FindLoop(m, idx, q) ==
    LET d == DirIns(m, idx, q) IN
    CASE d.k = "Enter"     -> FindLoop(m, d.next, q)
      [] d.k = "Reached"   -> <<NodeLoc(idx)>>
      [] d.k = "NewChild"  -> <<VirtLoc(q, Child(m, idx, d.right))>>
      [] d.k = "NewLeaf"   -> <<>>
      [] d.k = "NewBranch" -> <<>>

\* find: relative to the view (queries above / at / beside the view's position first)
Find(m, loc, q) ==
    LET vp == LocPrefix(m, loc)
        np == m.a[loc.i].p
    IN IF Covers(q, vp) THEN <<loc>>                         \* everything in the view is covered
       ELSE IF ~Covers(vp, q) THEN <<>>                      \* beside the view
       ELSE IF loc.k = "Virt" /\ ~Covers(np, q)
            THEN IF Covers(q, np) THEN <<VirtLoc(q, loc.i)>> ELSE <<>>
       ELSE FindLoop(m, loc.i, q)

FindExact(m, loc, q) ==
    LET w == Walk(m, loc.i, q) IN
    IF w.d.k = "Reached" /\ m.a[w.idx].v # NoVal THEN <<NodeLoc(w.idx)>> ELSE <<>>

FindLpm(m, loc, q) ==
    IF ~Covers(m.a[loc.i].p, q) THEN <<>>
    ELSE LET b == LpmLoop(m, loc.i, q, 0) IN IF b = 0 THEN <<>> ELSE <<NodeLoc(b)>>

Left(m, loc) ==
    IF loc.k = "Node" THEN (IF m.a[loc.i].l = 0 THEN <<>> ELSE <<NodeLoc(m.a[loc.i].l)>>)
    ELSE IF ~ToRight(loc.p, m.a[loc.i].p) THEN <<NodeLoc(loc.i)>> ELSE <<>>
Right(m, loc) ==
    IF loc.k = "Node" THEN (IF m.a[loc.i].r = 0 THEN <<>> ELSE <<NodeLoc(m.a[loc.i].r)>>)
    ELSE IF ToRight(loc.p, m.a[loc.i].p) THEN <<NodeLoc(loc.i)>> ELSE <<>>

\* the complete description of the sub-view graph below a location, as observed through
\* prefix(), value(), iter(), left(), right() (has_left / has_right / split for mutable views)
RECURSIVE Desc(_, _)
Desc(m, loc) ==
    LET l == Left(m, loc)
        r == Right(m, loc)
    IN [p |-> LocPrefix(m, loc), v |-> LocValue(m, loc), it |-> LocIter(m, loc),
        l |-> IF l = <<>> THEN <<>> ELSE <<Desc(m, l[1])>>,
        r |-> IF r = <<>> THEN <<>> ELSE <<Desc(m, r[1])>>]
\* a short description: position, value, content
Short(m, loc) == [p |-> LocPrefix(m, loc), v |-> LocValue(m, loc), it |-> LocIter(m, loc)]

(***************************************************************************)
(* Abstract meaning (C11): a view positioned at prefix vp addresses        *)
(* exactly the entries under vp; left / right split them by the next bit.  *)
(***************************************************************************)
RECURSIVE DescOK(_, _, _, _)
DescOK(E, d, canon, isRoot) ==
    LET under == AUnder(E, d.p)
        lp    == Pfx(Append(d.p.n, 0), ZeroHost)
        rp    == Pfx(Append(d.p.n, 1), ZeroHost)
    IN /\ d.it = SortedPV(under)
       /\ d.v = AVal(E, d.p.n)
       /\ d.l = <<>> => AUnder(E, lp) = {}
       /\ d.r = <<>> => AUnder(E, rp) = {}
       /\ d.l # <<>> => /\ IsPre(lp.n, d.l[1].p.n)          \* the left view lies under vp.0
                        /\ d.l[1].it = SortedPV(AUnder(E, lp))
                        /\ DescOK(E, d.l[1], canon, FALSE)
       /\ d.r # <<>> => /\ IsPre(rp.n, d.r[1].p.n)
                        /\ d.r[1].it = SortedPV(AUnder(E, rp))
                        /\ DescOK(E, d.r[1], canon, FALSE)
       \* for canonical tries a sub-view or side exists only if it holds an entry
       /\ canon => (isRoot \/ under # {})

\* view_at(q) / view_mut_at(q) from the whole map
ViewAtOK(E, q, res, canon) ==
    /\ res = <<>> => AUnder(E, q) = {}
    /\ res # <<>> => /\ res[1].p.n = q.n
                     /\ DescOK(E, res[1], canon, q.n = <<>>)
    /\ canon /\ q.n # <<>> /\ AUnder(E, q) = {} => res = <<>>

(***************************************************************************)
(* Abstract meaning of searching from a view (C12).  EV = the entries of   *)
(* the view searched from, s = the Short description of the result.        *)
(***************************************************************************)
FindOK(EV, q, res) ==
    /\ res = <<>> => AUnder(EV, q) = {}
    /\ res # <<>> => res[1].it = SortedPV(AUnder(EV, q))
FindExactOK(EV, q, res) ==
    /\ res # <<>> <=> AHas(EV, q.n)
    /\ res # <<>> => /\ res[1].p.n = q.n
                     /\ res[1].v = AVal(EV, q.n)
                     /\ res[1].it = SortedPV(AUnder(EV, q))
FindLpmOK(EV, q, res) ==
    LET l == ALpm(EV, q) IN
    /\ res = <<>> <=> l = <<>>
    /\ res # <<>> => /\ res[1].p = l[1].p
                     /\ res[1].v = <<l[1].v>>
                     /\ res[1].it = SortedPV(AUnder(EV, l[1].p))
=============================================================================
