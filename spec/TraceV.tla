------------------------------- MODULE TraceV -------------------------------
(***************************************************************************)
(* Trace validation (implementation -> specification).                    *)
(*                                                                         *)
(* The harness drives the real collections through long random histories   *)
(* at the real width of the prefix type and logs one JSON line per public  *)
(* call: the event exactly as in Events.tla / PairEvents.tla plus what the *)
(* code returned (ret, pan), the arena accounting read through the hook    *)
(* (x = <<arena length, |free|, counter>>) and, on some lines, the tree    *)
(* observed through views (t).  TLC consumes the lines one by one; a line  *)
(* is accepted iff it is exactly what the specification does from the      *)
(* current state.  The specification is deterministic given the logged     *)
(* arguments, so validation is a single chain of states.                   *)
(*                                                                         *)
(* Lines of kind "Obs" are observation-relative: they carry the contents   *)
(* the code itself reports (E) and the answers of the observers for a      *)
(* batch of queries, and are judged by the abstract definitions on E only. *)
(***************************************************************************)
EXTENDS PairEvents, Json, IOUtils, TLCExt

Rec == ndJsonDeserialize(IOEnv.TRACE)

VARIABLES mA, mB, drift, canon, l
vars == <<mA, mB, drift, canon, l>>

SeqSet(s) == {s[i] : i \in 1..Len(s)}
Has(e, f) == f \in DOMAIN e

\* JSON has no sets: keep-sets arrive as sequences
Norm(e) == IF e.a = "Retain" THEN [e EXCEPT !.keep = SeqSet(@)] ELSE e

Init == mA = EmptyMap /\ mB = EmptyMap /\ drift = 0 /\ canon = TRUE /\ l = 1

\* what every accepted line must satisfy in addition to the event-specific part
AcctOK(e, m2, d2) ==
    \* C16: the specification's arena length is the largest number of nodes the history ever needed at one time;
    \* the code may hold fewer slots (it may give trailing free slots back), never more
    /\ Has(e, "x") => /\ e.x[1] <= Len(m2.a)
                      /\ e.x[1] = Len(m2.a) => Len(m2.f) = e.x[2]
                      \* the cached counter: the specification's (which drifts by d2 as finding F4 explains),
                      \* or the true number of entries (the finding repaired)
                      /\ (m2.c = e.x[3] \/ m2.c - d2 = e.x[3])
    /\ Has(e, "t") => Tree(m2) = e.t

\* structural properties of the specification state after every accepted line
StateOK(m2) == WF(m2) /\ Partition(m2)

\* Where the properties leave something open, the logged result need not be the machine's choice:
\*  - retain: which entries the predicate sees is fixed (each once), the order of the calls is not
\*  - find(q) for a q above the view's own position: the entries the result addresses are fixed, the position it
\*    reports is not (at or below the view's position it is view_at(q), which C11 fixes completely)
\*  - a retain whose predicate panicked: the outcome is fixed relative to the calls made before the panic
\*    (RetainObserved), their order is not
RetMatches(e, mine, logged, panicked) ==
    IF e.a = "Retain" /\ ~panicked
    THEN Len(mine) = Len(logged) /\ SeqSet(mine) = SeqSet(logged)
    ELSE IF e.a = "Find" /\ e.kind = "find" /\ Len(e.q.n) < Len(e.p.n)
    THEN /\ Len(mine) = Len(logged)
         /\ mine # <<>> => mine[1].ok = logged[1].ok /\ mine[1].d.it = logged[1].d.it
    ELSE IF e.a = "Len"
    THEN \* the true number of entries is always right; the drifted one only as finding F4 explains it
         logged = mine \/ logged = <<mine[1] - drift>>
    ELSE mine = logged
\*  - an item stored in both operands of a set operation may carry either stored representation
StripBoth(op, ret) ==
    IF ret = <<>> THEN ret
    ELSE <<[i \in 1..Len(ret[1]) |->
              LET it == ret[1][i] IN
              CASE op = "Union" -> IF it.k = "B"
                                   THEN [it EXCEPT !.p = Pfx(it.p.n, "*"),
                                                   !.l = <<[p |-> Pfx(it.p.n, "*"), v |-> it.l[1].v]>>,
                                                   !.r = <<[p |-> Pfx(it.p.n, "*"), v |-> it.r[1].v]>>]
                                   ELSE it
                [] op = "UnionMut" -> IF it.l # <<>> /\ it.r # <<>> THEN [it EXCEPT !.p = Pfx(it.p.n, "*")] ELSE it
                [] op \in {"Inter", "InterMut"} -> [it EXCEPT !.p = Pfx(it.p.n, "*")]
                [] OTHER -> it]>>
PairMatches(e, mine, logged) ==
    IF e.a \in {"Union", "UnionMut", "Inter", "InterMut"} THEN StripBoth(e.a, mine) = StripBoth(e.a, logged)
    ELSE mine = logged

\* one single-map event on map `which`
MapStep(e, which) ==
    LET m0 == IF which = "A" THEN mA ELSE mB
        r  == IF e.a = "Retain" /\ ~Has(e, "lenient") /\ Has(e, "pan") /\ e.pan /\ RetainObservedOK(m0, e, e.ret)
              THEN RetainObserved(m0, e, e.ret) ELSE Apply(m0, e)
        ar == AbsApply(Entries(m0), e, r)
    IN \* a "lenient" line only advances the specification (used when the observers are judged after a call
       \* of another property's concern has already been rejected)
       /\ IF Has(e, "lenient") THEN TRUE ELSE (RetMatches(e, r.ret, e.ret, r.pan) /\ r.pan = e.pan)
       /\ AcctOK(e, r.m, IF which # "A" \/ IsClear(e) THEN 0 ELSE drift + DriftDelta(m0, e))
       /\ StateOK(r.m)
       \* the abstract map agrees as well (specification self-check at full width);
       \* `canon` is not tracked in traces, hence FALSE (the weaker judgement)
       /\ RetAgrees(e, r, ar, Entries(m0), FALSE, IF which = "A" THEN drift ELSE 0)
       /\ Entries(r.m) = ar.E
       /\ IF which = "A" THEN /\ mA' = r.m /\ mB' = mB /\ drift' = (IF IsClear(e) THEN 0 ELSE drift + DriftDelta(m0, e))
                               /\ canon' = (IF IsClear(e) THEN TRUE ELSE canon /\ CanonKeeps(e))
                         ELSE mB' = r.m /\ mA' = mA /\ drift' = drift /\ canon' = canon

PairStep(e) ==
    /\ PairMatches(e, PairObserve(mA, mB, e), e.ret)
    /\ ~e.pan
    /\ PairObserveOK(Entries(mA), Entries(mB), e, e.ret)
    /\ UNCHANGED <<mA, mB, drift, canon>>

\* observation-relative batch: judged on the contents the code itself reports
EntrySet(es) == SeqSet(es)
\* a search from the view at q0 (which exists), judged on the entries of that view
FindFacetOK(E, f) ==
    LET EV == AUnder(E, f.q0) IN
    CASE f.kind = "find"       -> FindOK(EV, f.q, f.r)
      [] f.kind = "find_exact" -> FindExactOK(EV, f.q, f.r)
      [] f.kind = "find_lpm"   -> FindLpmOK(EV, f.q, f.r)
PfxOf(o) == IF o = <<>> THEN <<>> ELSE <<o[1].p>>
PfxsOf(s) == [i \in 1..Len(s) |-> s[i].p]
ValsOf(s) == [i \in 1..Len(s) |-> s[i].v]
\* C15 on an observed tree <<n, h, v, left, right>>: every child strictly longer than, covered by and on the side
\* selected by the next bit of its parent (observation-relative: needs no specification state)
RECURSIVE TreeWFRec(_)
TreeWFRec(t) ==
    \/ t = <<>>
    \/ /\ Len(t) = 5
       /\ \A side \in {0, 1} :
            LET c == t[4 + side] IN
            c = <<>> \/ (/\ Len(c) = 5
                         /\ Len(c[1]) > Len(t[1]) /\ IsPre(t[1], c[1]) /\ c[1][Len(t[1]) + 1] = side
                         /\ TreeWFRec(c))
TreeWF(t) == Len(t) = 5 /\ t[1] = <<>> /\ TreeWFRec(t)

\* the contents the specification expects at this point, when the line can be related to a state:
\* "sr" = the preceding calls were replayed on the specification; "expE" = given explicitly
HasState(e) == Has(e, "sr") \/ Has(e, "expE")
StateE(e) == IF Has(e, "expE") THEN EntrySet(e.expE) ELSE Entries(mA)
Ascending(it) == \A i \in 1..(Len(it) - 1) : KeyLess(it[i].p, it[i + 1].p)
ObsStep(e) ==
    LET E == EntrySet(e.E) IN
    /\ Cardinality(E) = Len(e.E)                             \* no key twice
    /\ Ascending(e.iter)                                     \* C03: strictly ascending, hence nothing twice
    /\ e.iter = SortedPV(E)                                  \* C03 / C01: iteration and exact-match sweep agree
    /\ IF HasState(e) THEN E = StateE(e) ELSE TRUE           \* C01: the contents are what the history produced
    /\ IF Has(e, "nolen") THEN TRUE ELSE ((e.len = Cardinality(E) + drift \/ e.len = Cardinality(E)) /\ e.empty = (e.len = 0))   \* C04 (drift only via finding F4)
    /\ \A i \in 1..Len(e.qs) :
         LET q == e.qs[i] IN
         /\ q.get = AVal(E, q.q.n)                           \* C01
         /\ q.kv = AOptPV(E, q.q.n)
         /\ q.has = B2S(AHas(E, q.q.n))
         /\ q.lpm = ALpm(E, q.q)                             \* C02
         /\ q.lpmp = PfxOf(ALpm(E, q.q))                     \*   get_lpm_prefix
         /\ q.spm = ASpm(E, q.q)                             \* C09
         /\ q.spmp = PfxOf(ASpm(E, q.q))                     \*   get_spm_prefix
         /\ q.cover = ACover(E, q.q)
         /\ q.ck = PfxsOf(ACover(E, q.q))                    \*   cover_keys
         /\ q.cv = ValsOf(ACover(E, q.q))                    \*   cover_values
         /\ q.children = AChildren(E, q.q)                   \* C10
    /\ \A i \in 1..Len(e.vd) : ViewAtOK(E, e.vd[i].q, e.vd[i].d, FALSE)          \* C11
    /\ \A i \in 1..Len(e.fd) : FindFacetOK(E, e.fd[i])                            \* C12
    /\ IF Has(e, "t") THEN TreeWF(e.t) ELSE TRUE                                   \* C15 (well-formedness)
    /\ UNCHANGED <<mA, mB, drift, canon>>

ResetStep == mA' = EmptyMap /\ mB' = EmptyMap /\ drift' = 0 /\ canon' = TRUE
Step(e) ==
    IF e.a = "Reset" THEN ResetStep
    ELSE IF e.a = "Obs" THEN ObsStep(e)
    ELSE IF e.a \in PairObservers THEN PairStep(e)
    ELSE MapStep(e, IF Has(e, "m") THEN e.m ELSE "A")

Next == /\ l <= Len(Rec)
        /\ Step(Norm(Rec[l]))
        /\ l' = l + 1

\* remember how far the trace was matched (single worker)
Track == TLCSet(1, l)
Accepted == IF TLCGet(1) = Len(Rec) + 1 THEN TRUE
            ELSE PrintT(<<"TRACE-REJECTED-AT-LINE", TLCGet(1), "OF", Len(Rec)>>) /\ FALSE

(***************************************************************************)
(* Diagnosis of a rejected line: replay the accepted prefix, then print    *)
(* what the specification expects for the rejected line.                   *)
(***************************************************************************)
DiagLine == atoi(IOEnv.DIAG)
Expected(e) ==
    IF e.a = "Reset" THEN [kind |-> "reset"]
    ELSE IF e.a = "Obs" THEN
        LET E == EntrySet(e.E) IN
        [kind |-> "obs", iter |-> SortedPV(E), ascending |-> Ascending(e.iter), hasState |-> HasState(e),
         stateE |-> IF HasState(e) THEN SortedPV(StateE(e)) ELSE <<>>, len |-> IF Has(e, "nolen") \/ e.len = Cardinality(E) THEN e.len ELSE Cardinality(E) + drift,
         qs |-> [i \in 1..Len(e.qs) |->
                   LET q == e.qs[i] IN
                   [q |-> q.q, get |-> AVal(E, q.q.n), kv |-> AOptPV(E, q.q.n), has |-> B2S(AHas(E, q.q.n)),
                    lpm |-> ALpm(E, q.q), spm |-> ASpm(E, q.q), cover |-> ACover(E, q.q),
                    lpmp |-> PfxOf(ALpm(E, q.q)), spmp |-> PfxOf(ASpm(E, q.q)),
                    ck |-> PfxsOf(ACover(E, q.q)), cv |-> ValsOf(ACover(E, q.q)),
                    children |-> AChildren(E, q.q)]],
         twf |-> IF Has(e, "t") THEN TreeWF(e.t) ELSE TRUE,
         vdok |-> [i \in 1..Len(e.vd) |-> ViewAtOK(E, e.vd[i].q, e.vd[i].d, FALSE)],
         fdok |-> [i \in 1..Len(e.fd) |-> FindFacetOK(E, e.fd[i])]]
    ELSE IF e.a \in PairObservers THEN
        [kind |-> "pair", ret |-> PairObserve(mA, mB, e),
         absok |-> PairObserveOK(Entries(mA), Entries(mB), e, PairObserve(mA, mB, e))]
    ELSE LET m0 == IF Has(e, "m") /\ e.m = "B" THEN mB ELSE mA
             r  == Apply(m0, e)
             ar == AbsApply(Entries(m0), e, r)
         IN [kind |-> "map", ret |-> r.ret, pan |-> r.pan, x |-> <<Len(r.m.a), Len(r.m.f), r.m.c>>,
             t |-> Tree(r.m), t0 |-> Tree(m0), wf |-> WF(r.m), partition |-> Partition(r.m),
             cn |-> (IF IsClear(e) THEN TRUE ELSE canon /\ CanonKeeps(e)), keeps |-> ShapeKeeps(e),
             dr |-> (IF (Has(e, "m") /\ e.m = "B") \/ IsClear(e) THEN 0 ELSE drift + DriftDelta(m0, e)),
             absok |-> RetAgrees(e, r, ar, Entries(m0), FALSE, drift) /\ Entries(r.m) = ar.E]
DiagNext == /\ l <= DiagLine
            /\ IF l = DiagLine
               THEN PrintT(ToJson([diag |-> l, expected |-> Expected(Norm(Rec[l]))])) /\ UNCHANGED <<mA, mB, drift, canon>>
               ELSE Step(Norm(Rec[l]))
            /\ l' = l + 1
=============================================================================
