------------------------------- MODULE Bits -------------------------------
(***************************************************************************)
(* Prefixes as bit sequences, independent of the width of the concrete    *)
(* prefix type.  A prefix is a record [n |-> network bits, h |-> host]    *)
(* where h is an opaque token for the host part exactly as the caller     *)
(* passed it ("0" = all host bits zero).  Two prefixes denote the same    *)
(* key iff their n fields are equal.  Nothing here depends on the width;  *)
(* the same operators serve 2-bit model checking and 128-bit traces.      *)
(*                                                                         *)
(* Code anchors: src/prefix.rs (trait Prefix), src/lib.rs:127 (to_right). *)
(***************************************************************************)
EXTENDS Integers, Sequences, FiniteSets

ZeroHost == "0"
Pfx(n, h) == [n |-> n, h |-> h]
RootPfx   == Pfx(<<>>, ZeroHost)            \* P::zero()
PLen(p)   == Len(p.n)

MinI(a, b) == IF a <= b THEN a ELSE b
MaxI(a, b) == IF a >= b THEN a ELSE b

\* a is a (not necessarily strict) prefix of b, on raw bit sequences
IsPre(a, b) == /\ Len(a) <= Len(b)
               /\ \A i \in 1..Len(a) : a[i] = b[i]

\* number of equal leading bits
RECURSIVE EqLead(_, _, _)
EqLead(a, b, i) == IF i < Len(a) /\ i < Len(b) /\ a[i+1] = b[i+1]
                   THEN EqLead(a, b, i+1) ELSE i
LcpLenN(a, b) == EqLead(a, b, 0)

Covers(a, b)  == IsPre(a.n, b.n)            \* Prefix::contains
KeyEq(a, b)   == a.n = b.n                  \* Prefix::eq
BitAt(p, i)   == i < Len(p.n) /\ p.n[i+1] = 1   \* Prefix::is_bit_set (false for i >= len)
ToRight(bp, cp) == BitAt(cp, Len(bp.n))     \* lib.rs to_right
Lcp(a, b)     == Pfx(SubSeq(a.n, 1, LcpLenN(a.n, b.n)), ZeroHost)  \* longest_common_prefix

\* The iteration order: ascending network address, then ascending length.
\* For bit sequences: a proper prefix precedes what it covers; otherwise the
\* first differing bit decides (0-branch before 1-branch).
KeyLessN(a, b) == LET k == LcpLenN(a, b) IN
                  IF k = Len(a) THEN Len(b) > k
                  ELSE IF k = Len(b) THEN FALSE
                  ELSE a[k+1] < b[k+1]
KeyLess(a, b) == KeyLessN(a.n, b.n)

\* comparison of the *masked representations* (used by the set operations for
\* two prefixes of equal length, or two prefixes that do not cover each other):
\* -1, 0, 1.  Shorter sequences are padded with zeros.
MaskCmp(a, b) ==
    LET L    == MaxI(Len(a.n), Len(b.n))
        A(i) == IF i <= Len(a.n) THEN a.n[i] ELSE 0
        B(i) == IF i <= Len(b.n) THEN b.n[i] ELSE 0
        D    == {i \in 1..L : A(i) # B(i)}
    IN IF D = {} THEN 0
       ELSE LET i == CHOOSE x \in D : \A y \in D : x <= y
            IN IF A(i) < B(i) THEN -1 ELSE 1

(***************************************************************************)
(* Laws of the algebra (C17), stated over a finite universe U of prefixes  *)
(***************************************************************************)
CoversRefl(U)    == \A a \in U : Covers(a, a)
CoversAntisym(U) == \A a, b \in U : Covers(a, b) /\ Covers(b, a) => KeyEq(a, b)
CoversTrans(U)   == \A a, b, c \in U : Covers(a, b) /\ Covers(b, c) => Covers(a, c)
LcpLaws(U) == \A a, b \in U :
    LET c == Lcp(a, b) IN
    /\ KeyEq(c, Lcp(b, a))
    /\ Covers(c, a) /\ Covers(c, b)
    /\ c.h = ZeroHost
    /\ \A d \in U : Covers(d, a) /\ Covers(d, b) => Covers(d, c)
    /\ PLen(c) = MinI(MinI(PLen(a), PLen(b)), LcpLenN(a.n, b.n))
OrderLaws(U) ==
    /\ \A a \in U : ~KeyLess(a, a)
    /\ \A a, b \in U : a.n # b.n => (KeyLess(a, b) \/ KeyLess(b, a)) /\ ~(KeyLess(a, b) /\ KeyLess(b, a))
    /\ \A a, b, c \in U : KeyLess(a, b) /\ KeyLess(b, c) => KeyLess(a, c)
    /\ \A a, b \in U : Covers(a, b) /\ a.n # b.n => KeyLess(a, b)
=============================================================================
