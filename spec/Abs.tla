-------------------------------- MODULE Abs --------------------------------
(***************************************************************************)
(* Layer A: the abstract ordered map.  The contents of a map are a set E   *)
(* of entries [n, h, v] (network bits, host token of the stored            *)
(* representation, value) with pairwise distinct n.  Every definition here *)
(* is declarative: it is the *meaning* of a property, written without      *)
(* reference to trees, slots or stacks.                                    *)
(***************************************************************************)
EXTENDS Bits, SequencesExt, FiniteSetsExt

ANoVal == -1
AOpt(x) == IF x = ANoVal THEN <<>> ELSE <<x>>
AKeys(E) == {e.n : e \in E}
AHas(E, n) == \E e \in E : e.n = n
AGet(E, n) == CHOOSE e \in E : e.n = n
APV(e) == [p |-> Pfx(e.n, e.h), v |-> e.v]                 \* (stored prefix, value)
AOptPV(E, n) == IF AHas(E, n) THEN <<APV(AGet(E, n))>> ELSE <<>>
AVal(E, n) == IF AHas(E, n) THEN <<AGet(E, n).v>> ELSE <<>>

ELess(a, b) == KeyLessN(a.n, b.n)
SortedE(E) == SetToSortSeq(E, ELess)                        \* entries in iteration order
SortedPV(E) == LET s == SortedE(E) IN [i \in 1..Len(s) |-> APV(s[i])]

\* --- mutators: new contents + return value --------------------------------
APut(E, p, v) == {e \in E : e.n # p.n} \cup {[n |-> p.n, h |-> p.h, v |-> v]}
AInsert(E, p, v) == [E |-> APut(E, p, v), ret |-> AVal(E, p.n)]
ARemove(E, p) == [E |-> {e \in E : e.n # p.n}, ret |-> AVal(E, p.n)]
ASetVal(E, n, v) == {IF e.n = n THEN [e EXCEPT !.v = v] ELSE e : e \in E}   \* value-only write
AUnder(E, q) == {e \in E : IsPre(q.n, e.n)}                 \* entries covered by q (q included)
ARemoveChildren(E, q) == E \ AUnder(E, q)
ARetain(E, keep) == {e \in E : e.n \in keep}

\* --- observers --------------------------------------------------------------
ACovering(E, q) == {e \in E : IsPre(e.n, q.n)}              \* entries whose prefix covers q
ALpm(E, q) == LET C == ACovering(E, q) IN
              IF C = {} THEN <<>>
              ELSE <<APV(CHOOSE e \in C : \A d \in C : Len(d.n) <= Len(e.n))>>
ACover(E, q) == LET s == SetToSortSeq(ACovering(E, q), LAMBDA x, y : Len(x.n) < Len(y.n))
                IN [i \in 1..Len(s) |-> APV(s[i])]
ASpm(E, q) == LET c == ACover(E, q) IN IF c = <<>> THEN <<>> ELSE <<c[1]>>
AChildren(E, q) == SortedPV(AUnder(E, q))

\* --- set operations (C05 - C08) ----------------------------------------------
\* Items are records; k = "L" / "R" / "B".  l / r are Option<(prefix, value)>:
\* for a one-sided item the other side is the longest-prefix match in the other operand.
AUnion(EA, EB) ==
    LET K == SetToSortSeq(AKeys(EA) \cup AKeys(EB), KeyLessN) IN
    [i \in 1..Len(K) |->
        LET n == K[i] IN
        IF AHas(EA, n) /\ AHas(EB, n)
        THEN [k |-> "B", p |-> Pfx(n, AGet(EA, n).h), l |-> <<APV(AGet(EA, n))>>, r |-> <<APV(AGet(EB, n))>>]
        ELSE IF AHas(EA, n)
        THEN [k |-> "L", p |-> Pfx(n, AGet(EA, n).h), l |-> <<APV(AGet(EA, n))>>, r |-> ALpm(EB, Pfx(n, ZeroHost))]
        ELSE [k |-> "R", p |-> Pfx(n, AGet(EB, n).h), l |-> ALpm(EA, Pfx(n, ZeroHost)), r |-> <<APV(AGet(EB, n))>>]]
AIntersection(EA, EB) ==
    LET s == SortedE({e \in EA : AHas(EB, e.n)}) IN
    [i \in 1..Len(s) |-> [p |-> Pfx(s[i].n, s[i].h), l |-> s[i].v, r |-> AGet(EB, s[i].n).v]]
ADifference(EA, EB) ==
    LET s == SortedE({e \in EA : ~AHas(EB, e.n)}) IN
    [i \in 1..Len(s) |-> [p |-> Pfx(s[i].n, s[i].h), v |-> s[i].v, r |-> ALpm(EB, Pfx(s[i].n, ZeroHost))]]
ACoveringDifference(EA, EB) ==
    SortedPV({e \in EA : ACovering(EB, Pfx(e.n, ZeroHost)) = {}})

\* --- equality (C19): same sequence of (stored prefix, value) -------------------
AEq(EA, EB) == SortedPV(EA) = SortedPV(EB)
=============================================================================
