------------------------------ MODULE Events ------------------------------
(***************************************************************************)
(* One event = one public call (or one critical section on a handle: the   *)
(* borrow checker guarantees that nothing else can touch the map while an  *)
(* entry / view / iterator is alive, so a whole handle session is atomic). *)
(*                                                                         *)
(*   Apply(m, e)     what the implementation-shaped machine does           *)
(*                   -> [m |-> new map, ret |-> result, pan |-> panicked]  *)
(*   AbsApply(E, e)  what the abstract ordered map says                    *)
(*                   -> [E |-> new contents, ret |-> result]               *)
(*                                                                         *)
(* Results are always sequences / records of sequences so that TLC can     *)
(* compare a logged result with the expected one (Option<T> = sequence of  *)
(* length 0 or 1).  Events are plain records; the same records are emitted *)
(* by TLC for replay on the code and logged by the code for validation.    *)
(***************************************************************************)
EXTENDS Entry

B2S(b) == IF b THEN <<1>> ELSE <<0>>
Res(m, ret) == [m |-> m, ret |-> ret, pan |-> FALSE]
ARes(E, ret) == [E |-> E, ret |-> ret, pan |-> FALSE]

Mutators  == {"Insert", "Remove", "RemoveKeepTree", "RemoveChildren", "Retain", "Clear", "Entry",
              "GetMut", "LpmMut", "IterMut", "ValuesMut", "ChildrenMut"}
\* value written through a mutable reference in the bounded model: 1 <-> 2
Flip(v) == IF v = 1 THEN 2 ELSE 1
\* write through the k-th yielded reference only (k > 0) or through all of them (k = 0),
\* all references being held at the same time; slots = slots of the yielded entries in order
WriteThrough(m, slots, k) ==
    [m EXCEPT !.a = [i \in DOMAIN m.a |->
        IF \E j \in 1..Len(slots) : slots[j] = i /\ (k = 0 \/ k = j)
        THEN [m.a[i] EXCEPT !.v = Flip(@)] ELSE m.a[i]]]
AWriteThrough(E, pvs, k) ==
    {IF \E j \in 1..Len(pvs) : pvs[j].p.n = e.n /\ (k = 0 \/ k = j) THEN [e EXCEPT !.v = Flip(@)] ELSE e : e \in E}
Observers == {"Get", "GetKV", "Contains", "Lpm", "Spm", "Cover", "Children", "Iter", "Len"}

Apply(m, e) ==
    CASE e.a = "Insert"         -> LET r == MapInsert(m, e.p, e.v) IN Res(r.m, r.ret)
      [] e.a = "Remove"         -> LET r == MapRemove(m, e.p) IN Res(r.m, r.ret)
      [] e.a = "RemoveKeepTree" -> LET r == MapRemoveKeepTree(m, e.p) IN Res(r.m, r.ret)
      [] e.a = "RemoveChildren" -> Res(MapRemoveChildren(m, e.p), <<>>)
      [] e.a = "Clear"          -> Res(MapClear, <<>>)
      [] e.a = "Retain"         -> LET rr == MapRetain(m, e.keep, e.panicAt) IN
                                   [m |-> rr.m, ret |-> rr.calls, pan |-> rr.pan]
      [] e.a = "Entry"          -> EntrySession(m, e.p, e.ops)
      [] e.a = "GetMut"         -> LET i == GetIdx(m, e.p) IN
                                   IF i = 0 THEN Res(m, <<>>)
                                   ELSE Res([m EXCEPT !.a[i].v = e.v], <<m.a[i].v>>)
      [] e.a = "LpmMut"         -> LET i == LpmIdx(m, e.p) IN
                                   IF i = 0 THEN Res(m, <<>>)
                                   ELSE Res([m EXCEPT !.a[i].v = e.v], PV(m.a[i]))
      [] e.a \in {"IterMut", "ValuesMut"} ->
                                   Res(WriteThrough(m, IterSlots(m, <<1>>), e.k), IterAll(m))
      [] e.a = "ChildrenMut"    -> LET st == ChildrenStart(m, e.p) IN
                                   Res(WriteThrough(m, IterSlots(m, st), e.k), IterFrom(m, st))
      [] e.a = "Get"            -> Res(m, GetAlg(m, e.p))
      [] e.a = "GetKV"          -> Res(m, GetKVAlg(m, e.p))
      [] e.a = "Contains"       -> Res(m, B2S(ContainsAlg(m, e.p)))
      [] e.a = "Lpm"            -> Res(m, LpmAlg(m, e.p))
      [] e.a = "Spm"            -> Res(m, SpmAlg(m, e.p))
      [] e.a = "Cover"          -> Res(m, CoverAlg(m, e.p))
      [] e.a = "Children"       -> Res(m, ChildrenAlg(m, e.p))
      [] e.a = "Iter"           -> Res(m, IterAll(m))
      [] e.a = "Len"            -> Res(m, <<m.c>>)

\* `r` is the machine's result; it is consulted only where the abstract effect depends on
\* an order the abstract map leaves open (which predicate calls preceded a panic).
AbsApply(E, e, r) ==
    CASE e.a = "Insert"         -> LET x == AInsert(E, e.p, e.v) IN ARes(x.E, x.ret)
      [] e.a = "Remove"         -> LET x == ARemove(E, e.p) IN ARes(x.E, x.ret)
      [] e.a = "RemoveKeepTree" -> LET x == ARemove(E, e.p) IN ARes(x.E, x.ret)
      [] e.a = "RemoveChildren" -> ARes(ARemoveChildren(E, e.p), <<>>)
      [] e.a = "Clear"          -> ARes({}, <<>>)
      [] e.a = "Retain"         ->
            \* entries the predicate was asked about and rejected are gone; if it panicked at
            \* call k, only the first k-1 answers count (C20)
            LET nAsked == IF r.pan THEN Len(r.ret) - 1 ELSE Len(r.ret)
                asked  == {r.ret[i].n : i \in 1..nAsked}
            IN ARes({x \in E : x.n \in e.keep \/ x.n \notin asked}, SortedPV(E))
      [] e.a = "Entry"          -> AEntrySession(E, e.p, e.ops)
      [] e.a = "GetMut"         -> ARes(IF AHas(E, e.p.n) THEN ASetVal(E, e.p.n, e.v) ELSE E, AVal(E, e.p.n))
      [] e.a = "LpmMut"         -> LET l == ALpm(E, e.p) IN
                                   ARes(IF l = <<>> THEN E ELSE ASetVal(E, l[1].p.n, e.v), l)
      [] e.a \in {"IterMut", "ValuesMut"} -> ARes(AWriteThrough(E, SortedPV(E), e.k), SortedPV(E))
      [] e.a = "ChildrenMut"    -> ARes(AWriteThrough(E, AChildren(E, e.p), e.k), AChildren(E, e.p))
      [] e.a = "Get"            -> ARes(E, AVal(E, e.p.n))
      [] e.a = "GetKV"          -> ARes(E, AOptPV(E, e.p.n))
      [] e.a = "Contains"       -> ARes(E, B2S(AHas(E, e.p.n)))
      [] e.a = "Lpm"            -> ARes(E, ALpm(E, e.p))
      [] e.a = "Spm"            -> ARes(E, ASpm(E, e.p))
      [] e.a = "Cover"          -> ARes(E, ACover(E, e.p))
      [] e.a = "Children"       -> ARes(E, AChildren(E, e.p))
      [] e.a = "Iter"           -> ARes(E, SortedPV(E))
      [] e.a = "Len"            -> ARes(E, <<Cardinality(E)>>)

\* does the machine's result agree with the abstract one?
RetAgrees(e, r, ar) ==
    IF e.a = "Retain"
    THEN \* every stored entry is asked exactly once (any order), unless the predicate panicked
         /\ ~r.pan => /\ Len(r.ret) = Len(ar.ret)
                      /\ {r.ret[i] : i \in 1..Len(r.ret)} = {ar.ret[i].p : i \in 1..Len(ar.ret)}
         /\ r.pan => Len(r.ret) = e.panicAt
    ELSE r.ret = ar.ret /\ r.pan = ar.pan

\* events that reset the map to a new one (clear keeps no node but the root)
IsClear(e) == e.a = "Clear" \/ (e.a = "RemoveChildren" /\ PLen(e.p) = 0)

\* operations after which the shape must still be the canonical one (C15)
\* (an Entry session keeps it unless it used o_remove, which is remove_keep_tree)
ValueOnly == {"GetMut", "LpmMut", "IterMut", "ValuesMut", "ChildrenMut"}
CanonKeeps(e) == \/ e.a \in {"Insert", "Remove", "Retain", "Clear"} \cup Observers \cup ValueOnly
                 \/ e.a = "Entry" /\ \A i \in 1..Len(e.ops) : e.ops[i].o # "o_remove"
\* events that must leave the shape untouched (C15): value-only operations
ShapeKeeps(e) == \/ e.a \in {"RemoveKeepTree"} \cup Observers \cup ValueOnly
                 \/ e.a = "Entry" /\ \A i \in 1..Len(e.ops) : e.ops[i].o \notin Consuming
=============================================================================
