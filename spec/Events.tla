------------------------------ MODULE Events ------------------------------
(***************************************************************************)
(* One event = one public call (or one critical section on a handle: the   *)
(* borrow checker guarantees that nothing else can touch the map while an  *)
(* entry / view / iterator is alive, so a whole handle session is atomic). *)
(*                                                                         *)
(*   Apply(m, e)     what the implementation-shaped machine does           *)
(*                   -> [m |-> new map, ret |-> result, pan |-> panicked]  *)
(*   AbsApply(E, e)  what the abstract ordered map says                    *)
(*                   -> [E |-> new contents, ret |-> result]               *)
(*                                                                         *)
(* Results are always sequences / records of sequences so that TLC can     *)
(* compare a logged result with the expected one (Option<T> = sequence of  *)
(* length 0 or 1).  Events are plain records; the same records are emitted *)
(* by TLC for replay on the code and logged by the code for validation.    *)
(***************************************************************************)
EXTENDS Entry, SetOps

B2S(b) == IF b THEN <<1>> ELSE <<0>>
Res(m, ret) == [m |-> m, ret |-> ret, pan |-> FALSE]
ARes(E, ret) == [E |-> E, ret |-> ret, pan |-> FALSE]

Mutators  == {"Insert", "Remove", "RemoveKeepTree", "RemoveChildren", "Retain", "Clear", "Entry",
              "GetMut", "LpmMut", "IterMut", "ValuesMut", "ChildrenMut",
              "ViewSet", "ViewRemove", "ViewValueMut", "ViewIterMut"}
\* value written through a mutable reference in the bounded model: 1 <-> 2
Flip(v) == IF v = 1 THEN 2 ELSE 1
\* write through the k-th yielded reference only (k > 0) or through all of them (k = 0),
\* all references being held at the same time; slots = slots of the yielded entries in order
WriteThrough(m, slots, k) ==
    [m EXCEPT !.a = [i \in DOMAIN m.a |->
        IF \E j \in 1..Len(slots) : slots[j] = i /\ (k = 0 \/ k = j)
        THEN [m.a[i] EXCEPT !.v = Flip(@)] ELSE m.a[i]]]
AWriteThrough(E, pvs, k) ==
    {IF \E j \in 1..Len(pvs) : pvs[j].p.n = e.n /\ (k = 0 \/ k = j) THEN [e EXCEPT !.v = Flip(@)] ELSE e : e \in E}
Observers == {"Get", "GetKV", "Contains", "Lpm", "Spm", "Cover", "Children", "Iter", "Len",
              "ViewDesc", "Find", "Alias", "CloneCheck", "Collect", "Serde", "SplitOp", "Misc"}

\* C14: the slots to which mutable references are handed out simultaneously
\*   "iter"        view.iter_mut()
\*   "split"       (l, r) = view.split(); l.iter_mut() and r.iter_mut() at the same time
\*   "split_union" (l, r) = view.split(); l.union_mut(r)   (two disjoint views of one map)
AliasSlots(m, loc, how) ==
    LET l == Left(m, loc)
        r == Right(m, loc)
        sl == IF l = <<>> THEN <<>> ELSE IterSlots(m, <<l[1].i>>)
        sr == IF r = <<>> THEN <<>> ELSE IterSlots(m, <<r[1].i>>)
    IN CASE how = "iter"  -> IterSlots(m, <<loc.i>>)
         [] how = "split" -> sl \o sr
         [] how = "split_union" ->
              IF l = <<>> THEN sr ELSE IF r = <<>> THEN sl
              ELSE LET u == UnionSlots(m, m, l[1], r[1]) IN
                   \* every yielded item hands out its left and/or right reference
                   LET RECURSIVE Flat(_)
                       Flat(s) == IF s = <<>> THEN <<>>
                                  ELSE (IF s[1].l # 0 THEN <<s[1].l>> ELSE <<>>) \o
                                       (IF s[1].r # 0 THEN <<s[1].r>> ELSE <<>>) \o Flat(Tail(s))
                   IN Flat(u)

\* the operation `op` between the left and the right side of the view at p (<<>> if a side is missing)
SplitOpRun(m, p, op) ==
    LET at == Find(m, RootLoc, p) IN
    IF at = <<>> THEN <<>>
    ELSE LET l == Left(m, at[1])
             r == Right(m, at[1])
         IN IF l = <<>> \/ r = <<>> THEN <<>>
            ELSE <<CASE op = "Union"   -> UnionRun(m, m, l[1], r[1])
                     [] op = "Inter"   -> InterRun(m, m, l[1], r[1])
                     [] op = "Diff"    -> DiffRun(m, m, l[1], r[1])
                     [] op = "CovDiff" -> CovDiffRun(m, m, l[1], r[1])>>

\* FromIterator: a new map with the entries inserted in iteration order
RECURSIVE InsertAll(_, _)
InsertAll(mm, es) == IF es = <<>> THEN mm ELSE InsertAll(MapInsert(mm, es[1].p, es[1].v).m, Tail(es))
CollectOf(mm) == InsertAll(EmptyMap, IterAll(mm))
EqAlg1(A, B) == IterAll(A) = IterAll(B)

\* view_at(q) / view_mut_at(q) on the whole map
ViewAt(m, q) == Find(m, RootLoc, q)
\* find / find_exact / find_lpm from the view at q0
FindFrom(m, q0, q, kind) ==
    LET at == ViewAt(m, q0) IN
    IF at = <<>> THEN <<>>
    ELSE LET res == CASE kind = "find"       -> Find(m, at[1], q)
                      [] kind = "find_exact" -> FindExact(m, at[1], q)
                      [] kind = "find_lpm"   -> FindLpm(m, at[1], q)
         IN IF res = <<>> THEN <<[ok |-> 0, d |-> Short(m, at[1])]>>
            ELSE <<[ok |-> 1, d |-> Short(m, res[1])]>>

\* C20 fixes the outcome of a retain whose predicate panicked relative to the calls that preceded the panic,
\* not the order of the calls (the machine below asks children first, as the code does today).  For an observed
\* call sequence `calls` (the last call is the one that panicked) the outcome is: the entries asked before the
\* panic and rejected are gone, everything else is untouched.
StoredPfxs(m) == {m.a[i].p : i \in {j \in Reach(m) : m.a[j].v # NoVal}}
RetainObservedOK(m, e, calls) ==
    /\ e.panicAt > 0 /\ Len(calls) = e.panicAt
    /\ \A i \in 1..Len(calls) : calls[i] \in StoredPfxs(m)
    /\ \A i, j \in 1..Len(calls) : i # j => calls[i].n # calls[j].n
RetainObserved(m, e, calls) ==
    LET before == {calls[i].n : i \in 1..(Len(calls) - 1)}
        keep2  == e.keep \cup ({p.n : p \in StoredPfxs(m)} \ before)
        rr     == MapRetain(m, keep2, 0)
    IN [m |-> rr.m, ret |-> calls, pan |-> TRUE]

Apply(m, e) ==
    CASE e.a = "Insert"         -> LET r == MapInsert(m, e.p, e.v) IN Res(r.m, r.ret)
      [] e.a = "Remove"         -> LET r == MapRemove(m, e.p) IN Res(r.m, r.ret)
      [] e.a = "RemoveKeepTree" -> LET r == MapRemoveKeepTree(m, e.p) IN Res(r.m, r.ret)
      [] e.a = "RemoveChildren" -> Res(MapRemoveChildren(m, e.p), <<>>)
      [] e.a = "Clear"          -> Res(MapClear, <<>>)
      [] e.a = "Retain"         -> LET rr == MapRetain(m, e.keep, e.panicAt) IN
                                   [m |-> rr.m, ret |-> rr.calls, pan |-> rr.pan]
      [] e.a = "Entry"          -> EntrySession(m, e.p, e.ops)
      [] e.a = "GetMut"         -> LET i == GetIdx(m, e.p) IN
                                   IF i = 0 THEN Res(m, <<>>)
                                   ELSE Res([m EXCEPT !.a[i].v = e.v], <<m.a[i].v>>)
      [] e.a = "LpmMut"         -> LET i == LpmIdx(m, e.p) IN
                                   IF i = 0 THEN Res(m, <<>>)
                                   ELSE Res([m EXCEPT !.a[i].v = e.v], PV(m.a[i]))
      [] e.a \in {"IterMut", "ValuesMut"} ->
                                   Res(WriteThrough(m, IterSlots(m, <<1>>), e.k), IterAll(m))
      [] e.a = "ChildrenMut"    -> LET st == ChildrenStart(m, e.p) IN
                                   Res(WriteThrough(m, IterSlots(m, st), e.k), IterFrom(m, st))
      [] e.a = "ViewDesc"       -> LET at == ViewAt(m, e.p) IN
                                   Res(m, IF at = <<>> THEN <<>> ELSE <<Desc(m, at[1])>>)
      [] e.a = "Find"           -> Res(m, FindFrom(m, e.p, e.q, e.kind))
      \* C19: clone() is equal and independent; rebuilding from the own entries (collect, serde round
      \* trip) gives an equal map.  In the specification maps are values, so these are identities;
      \* the events exist to be executed on the code: <<equal, independent one way, independent the other>>
      \* small API surface without a state of its own, executed on the code only: <<Default iterators are
      \* empty, Debug formatting terminates, a cloned / re-viewed TrieView shows
      \* the same, IntoIterator of a view = iter()>>
      [] e.a = "Misc"           -> Res(m, <<1, 1, 1, 1>>)
      [] e.a = "CloneCheck"     -> Res(m, <<1, 1, 1>>)
      [] e.a = "Collect"        -> Res(m, <<B2S(EqAlg1(m, CollectOf(m)))[1], B2S(Tree(CollectOf(m)) = Tree(CollectOf(CollectOf(m))))[1]>>)
      [] e.a = "Serde"          -> Res(m, <<1>>)
      \* set operations between the two sides of one view (two disjoint views of the same map):
      \* view_at(p).left() / .right() for the read-only operations, view_mut_at(p).split() for the _mut twins
      [] e.a = "SplitOp"        -> Res(m, SplitOpRun(m, e.p, e.op))
      [] e.a = "Alias"          ->                  \* C14: all mutable references obtainable at once below view_mut_at(p)
            LET at == ViewAt(m, e.p) IN
            IF at = <<>> THEN Res(m, <<>>)
            ELSE LET sl == AliasSlots(m, at[1], e.how) IN
                 Res(m, <<[distinct |-> B2S(Cardinality(SeqToSet(sl)) = Len(sl))[1], n |-> Len(sl)]>>)
      [] e.a = "ViewSet"        ->                  \* TrieViewMut::set -- the counter is NOT updated (finding F4)
            LET at == ViewAt(m, e.p) IN
            IF at = <<>> THEN Res(m, <<>>)
            ELSE IF at[1].k = "Virt" THEN Res(m, <<[ok |-> 0, old |-> <<e.v>>]>>)
            ELSE Res([m EXCEPT !.a[at[1].i].v = e.v], <<[ok |-> 1, old |-> Opt(m.a[at[1].i].v)]>>)
      [] e.a = "ViewRemove"     ->                  \* TrieViewMut::remove -- the counter is NOT updated (F4)
            LET at == ViewAt(m, e.p) IN
            IF at = <<>> THEN Res(m, <<>>)
            ELSE IF at[1].k = "Virt" THEN Res(m, <<[old |-> <<>>]>>)
            ELSE Res([m EXCEPT !.a[at[1].i].v = NoVal], <<[old |-> Opt(m.a[at[1].i].v)]>>)
      [] e.a = "ViewValueMut"   ->                  \* value_mut / prefix_value_mut + write
            LET at == ViewAt(m, e.p) IN
            IF at = <<>> THEN Res(m, <<>>)
            ELSE IF at[1].k = "Virt" \/ m.a[at[1].i].v = NoVal THEN Res(m, <<[old |-> <<>>]>>)
            ELSE Res([m EXCEPT !.a[at[1].i].v = Flip(@)], <<[old |-> PV(m.a[at[1].i])]>>)
      [] e.a = "ViewIterMut"    ->                  \* iter_mut / values_mut / into_iter of a mutable view
            LET at == ViewAt(m, e.p) IN
            IF at = <<>> THEN Res(m, <<>>)
            ELSE Res(WriteThrough(m, IterSlots(m, <<at[1].i>>), e.k), <<LocIter(m, at[1])>>)
      [] e.a = "Get"            -> Res(m, GetAlg(m, e.p))
      [] e.a = "GetKV"          -> Res(m, GetKVAlg(m, e.p))
      [] e.a = "Contains"       -> Res(m, B2S(ContainsAlg(m, e.p)))
      [] e.a = "Lpm"            -> Res(m, LpmAlg(m, e.p))
      [] e.a = "Spm"            -> Res(m, SpmAlg(m, e.p))
      [] e.a = "Cover"          -> Res(m, CoverAlg(m, e.p))
      [] e.a = "Children"       -> Res(m, ChildrenAlg(m, e.p))
      [] e.a = "Iter"           -> Res(m, IterAll(m))
      [] e.a = "Len"            -> Res(m, <<m.c>>)

\* `r` is the machine's result; it is consulted only where the abstract effect depends on
\* an order the abstract map leaves open (which predicate calls preceded a panic).
AbsApply(E, e, r) ==
    CASE e.a = "Insert"         -> LET x == AInsert(E, e.p, e.v) IN ARes(x.E, x.ret)
      [] e.a = "Remove"         -> LET x == ARemove(E, e.p) IN ARes(x.E, x.ret)
      [] e.a = "RemoveKeepTree" -> LET x == ARemove(E, e.p) IN ARes(x.E, x.ret)
      [] e.a = "RemoveChildren" -> ARes(ARemoveChildren(E, e.p), <<>>)
      [] e.a = "Clear"          -> ARes({}, <<>>)
      [] e.a = "Retain"         ->
            \* entries the predicate was asked about and rejected are gone; if it panicked at
            \* call k, only the first k-1 answers count (C20)
            LET nAsked == IF r.pan THEN Len(r.ret) - 1 ELSE Len(r.ret)
                asked  == {r.ret[i].n : i \in 1..nAsked}
            IN ARes({x \in E : x.n \in e.keep \/ x.n \notin asked}, SortedPV(E))
      [] e.a = "Entry"          -> IF NoUseAfterRemove(e.ops) THEN AEntrySession(E, e.p, e.ops)
                                   ELSE [E |-> Entries(r.m), ret |-> r.ret, pan |-> r.pan]     \* finding F7
      [] e.a = "GetMut"         -> ARes(IF AHas(E, e.p.n) THEN ASetVal(E, e.p.n, e.v) ELSE E, AVal(E, e.p.n))
      [] e.a = "LpmMut"         -> LET l == ALpm(E, e.p) IN
                                   ARes(IF l = <<>> THEN E ELSE ASetVal(E, l[1].p.n, e.v), l)
      [] e.a \in {"IterMut", "ValuesMut"} -> ARes(AWriteThrough(E, SortedPV(E), e.k), SortedPV(E))
      [] e.a = "ChildrenMut"    -> ARes(AWriteThrough(E, AChildren(E, e.p), e.k), AChildren(E, e.p))
      \* views: the abstract map cannot know shapes or the prefixes of value-less nodes; the
      \* machine's answer is judged by the predicates in RetAgrees instead of by equality
      [] e.a \in {"ViewDesc", "Find", "Alias", "SplitOp"} -> ARes(E, r.ret)
      [] e.a = "Misc"           -> ARes(E, <<1, 1, 1, 1>>)
      [] e.a = "CloneCheck"     -> ARes(E, <<1, 1, 1>>)
      [] e.a = "Collect"        -> ARes(E, <<1, 1>>)
      [] e.a = "Serde"          -> ARes(E, <<1>>)
      [] e.a = "ViewSet"        ->
            IF r.ret = <<>> \/ r.ret[1].ok = 0 THEN ARes(E, r.ret)
            ELSE \* the value is stored under the node's existing prefix (documented)
                 LET h == (CHOOSE x \in Entries(r.m) : x.n = e.p.n).h IN
                 ARes({x \in E : x.n # e.p.n} \cup {[n |-> e.p.n, h |-> h, v |-> e.v]},
                      <<[ok |-> 1, old |-> AVal(E, e.p.n)]>>)
      [] e.a = "ViewRemove"     ->
            IF r.ret = <<>> THEN ARes(E, r.ret)
            ELSE ARes({x \in E : x.n # e.p.n}, <<[old |-> AVal(E, e.p.n)]>>)
      [] e.a = "ViewValueMut"   ->
            IF r.ret = <<>> THEN ARes(E, r.ret)
            ELSE ARes(IF AHas(E, e.p.n) THEN ASetVal(E, e.p.n, Flip(AGet(E, e.p.n).v)) ELSE E,
                      <<[old |-> AOptPV(E, e.p.n)]>>)
      [] e.a = "ViewIterMut"    ->
            IF r.ret = <<>> THEN ARes(E, r.ret)
            ELSE ARes(AWriteThrough(E, AChildren(E, e.p), e.k), <<AChildren(E, e.p)>>)
      [] e.a = "Get"            -> ARes(E, AVal(E, e.p.n))
      [] e.a = "GetKV"          -> ARes(E, AOptPV(E, e.p.n))
      [] e.a = "Contains"       -> ARes(E, B2S(AHas(E, e.p.n)))
      [] e.a = "Lpm"            -> ARes(E, ALpm(E, e.p))
      [] e.a = "Spm"            -> ARes(E, ASpm(E, e.p))
      [] e.a = "Cover"          -> ARes(E, ACover(E, e.p))
      [] e.a = "Children"       -> ARes(E, AChildren(E, e.p))
      [] e.a = "Iter"           -> ARes(E, SortedPV(E))
      [] e.a = "Len"            -> ARes(E, <<Cardinality(E)>>)

\* does the machine's result agree with the abstract one?  (E = contents before the event)
RetAgrees(e, r, ar, E, canon, drift) ==
    \* len(): exact, except for the drift the listed finding F4 explains
    IF e.a = "Len" THEN r.ret = <<ar.ret[1] + drift>> /\ ~r.pan ELSE
    IF e.a = "ViewDesc" THEN ViewAtOK(E, e.p, r.ret, canon) /\ ~r.pan
    ELSE IF e.a = "Find" THEN
         /\ ~r.pan
         /\ r.ret = <<>> => AUnder(E, e.p) = {}
         /\ r.ret # <<>> =>
              LET EV  == AUnder(E, e.p)                    \* the entries of the view searched from
                  res == IF r.ret[1].ok = 1 THEN <<r.ret[1].d>> ELSE <<>>
              IN /\ CASE e.kind = "find"       -> FindOK(EV, e.q, res)
                      [] e.kind = "find_exact" -> FindExactOK(EV, e.q, res)
                      [] e.kind = "find_lpm"   -> FindLpmOK(EV, e.q, res)
                 \* on failure the original view is handed back
                 /\ r.ret[1].ok = 0 => r.ret[1].d.it = SortedPV(EV)
    ELSE IF e.a = "SplitOp" THEN
         /\ ~r.pan
         /\ r.ret # <<>> =>
              LET EA == AUnder(E, Pfx(Append(e.p.n, 0), ZeroHost))
                  EB == AUnder(E, Pfx(Append(e.p.n, 1), ZeroHost))
              IN CASE e.op = "Union"   -> UnionOK(r.ret[1], EA, EB)
                   [] e.op = "Inter"   -> r.ret[1] = <<>>                  \* C06: disjoint sub-views never intersect
                   [] e.op = "Diff"    -> DiffOK(r.ret[1], EA, EB)
                   [] e.op = "CovDiff" -> CovDiffOK(r.ret[1], EA, EB)
    ELSE IF e.a = "Alias" THEN
         \* C14: the references are pairwise distinct and cover exactly the entries of the regions
         /\ ~r.pan
         /\ r.ret # <<>> => /\ r.ret[1].distinct = 1
                            /\ r.ret[1].n = Cardinality(AUnder(E, e.p)) -
                                   (IF e.how \in {"split", "split_union"} /\ AHas(E, e.p.n) THEN 1 ELSE 0)
    ELSE IF e.a \in {"ViewSet", "ViewRemove", "ViewValueMut", "ViewIterMut"} THEN
         /\ ~r.pan /\ r.ret = ar.ret
         /\ r.ret = <<>> => AUnder(E, e.p) = {}
    ELSE IF e.a = "Entry" /\ ~NoUseAfterRemove(e.ops)
    THEN \* finding F7: the abstract map gives no meaning to calls on a removed OccupiedEntry; the
         \* machine says what the code does (it panics on the unwrap)
         TRUE
    ELSE IF e.a = "Retain"
    THEN \* every stored entry is asked exactly once (any order), unless the predicate panicked
         /\ ~r.pan => /\ Len(r.ret) = Len(ar.ret)
                      /\ {r.ret[i] : i \in 1..Len(r.ret)} = {ar.ret[i].p : i \in 1..Len(ar.ret)}
         /\ r.pan => Len(r.ret) = e.panicAt
    ELSE r.ret = ar.ret /\ r.pan = ar.pan

\* Known finding F4: TrieViewMut::set / remove change the number of entries without
\* updating the cached counter.  DriftDelta is the amount by which len() runs ahead of the
\* true number of entries after the event; only these two call sites may change it.
DriftDelta(m, e) ==
    \* finding F7: OccupiedEntry::insert after remove() stores a value again without counting it
    IF e.a = "Entry" /\ Len(e.ops) = 2 /\ e.ops[1].o = "o_remove" /\ e.ops[2].o = "o_insert" THEN -1 ELSE
    IF e.a \in {"ViewSet", "ViewRemove"} /\ ViewAt(m, e.p) # <<>> /\ ViewAt(m, e.p)[1].k = "Node"
    THEN LET valued == m.a[ViewAt(m, e.p)[1].i].v # NoVal IN
         IF e.a = "ViewRemove" /\ valued THEN 1
         ELSE IF e.a = "ViewSet" /\ ~valued THEN -1 ELSE 0
    ELSE 0

\* events that reset the map to a new one (clear keeps no node but the root)
IsClear(e) == e.a = "Clear" \/ (e.a = "RemoveChildren" /\ PLen(e.p) = 0)

\* operations after which the shape must still be the canonical one (C15)
\* (an Entry session keeps it unless it used o_remove, which is remove_keep_tree)
ValueOnly == {"GetMut", "LpmMut", "IterMut", "ValuesMut", "ChildrenMut", "ViewValueMut", "ViewIterMut"}
CanonKeeps(e) == \/ e.a \in {"Insert", "Remove", "Retain", "Clear"} \cup Observers \cup ValueOnly
                 \/ e.a = "Entry" /\ \A i \in 1..Len(e.ops) : e.ops[i].o # "o_remove"
\* events that must leave the shape untouched (C15): value-only operations
ShapeKeeps(e) == \/ e.a \in {"RemoveKeepTree", "ViewSet", "ViewRemove"} \cup Observers \cup ValueOnly
                 \/ e.a = "Entry" /\ \A i \in 1..Len(e.ops) : e.ops[i].o \notin Consuming
=============================================================================
