------------------------------- MODULE Trie -------------------------------
(***************************************************************************)
(* The implementation-shaped arena machine of PrefixMap (Layer B).         *)
(*                                                                         *)
(* A map is a record m = [a, f, c]:                                        *)
(*   a  arena: sequence of nodes [p, v, l, r]; slot 1 is the permanent     *)
(*      root (table[0] of the code); 0 stands for `None` in l / r          *)
(*   f  free list (a stack: the last element is popped first)              *)
(*   c  cached entry counter                                               *)
(* Every operator is a pure function over such records, transcribing the   *)
(* code one decision at a time, so that the same definitions serve model   *)
(* checking (MC*.tla), trace validation (TraceV.tla) and pairs of maps.    *)
(*                                                                         *)
(* Code anchors are given as file:function.                                *)
(***************************************************************************)
EXTENDS Bits, TLC

NoVal == -1
Opt(x) == IF x = NoVal THEN <<>> ELSE <<x>>          \* Option<T> as a sequence of length 0/1

MkNode(p, v) == [p |-> p, v |-> v, l |-> 0, r |-> 0]
EmptyMap == [a |-> <<MkNode(RootPfx, NoVal)>>, f |-> <<>>, c |-> 0]   \* PrefixMap::new / Table::default

Child(m, i, right) == IF right THEN m.a[i].r ELSE m.a[i].l             \* inner.rs:get_child
SetChild(m, i, ch, right) ==                                            \* inner.rs:set_child / clear_child (ch = 0)
    IF right THEN [m EXCEPT !.a[i].r = ch] ELSE [m EXCEPT !.a[i].l = ch]
PushFree(m, i) == [m EXCEPT !.f = Append(@, i)]

(***************************************************************************)
(* Navigation: inner.rs get_direction / get_direction_for_insert           *)
(***************************************************************************)
Dir(m, cur, p) ==
    LET cp == m.a[cur].p IN
    IF KeyEq(cp, p) THEN [k |-> "Reached"]
    ELSE LET right == ToRight(cp, p)
             ch    == Child(m, cur, right)
         IN IF ch # 0 /\ Covers(m.a[ch].p, p)
            THEN [k |-> "Enter", next |-> ch, right |-> right]
            ELSE [k |-> "Missing"]

DirIns(m, cur, p) ==
    LET cp == m.a[cur].p IN
    IF KeyEq(cp, p) THEN [k |-> "Reached"]
    ELSE LET right == ToRight(cp, p)
             ch    == Child(m, cur, right)
         IN IF ch = 0 THEN [k |-> "NewLeaf", right |-> right]
            ELSE LET chp == m.a[ch].p IN
                 IF Covers(chp, p) THEN [k |-> "Enter", next |-> ch, right |-> right]
                 ELSE IF Covers(p, chp)
                      THEN [k |-> "NewChild", right |-> right, childRight |-> ToRight(p, chp)]
                      ELSE LET bp == Lcp(p, chp) IN
                           [k |-> "NewBranch", bp |-> bp, right |-> right,
                            prefixRight |-> ToRight(bp, p)]

\* the loop `idx = next` of get / contains_key / ... : the node at which the
\* search stops, and the final (non-Enter) direction
RECURSIVE Walk(_, _, _)
Walk(m, idx, p) == LET d == Dir(m, idx, p) IN
                   IF d.k = "Enter" THEN Walk(m, d.next, p) ELSE [idx |-> idx, d |-> d]
RECURSIVE WalkIns(_, _, _)
WalkIns(m, idx, p) == LET d == DirIns(m, idx, p) IN
                      IF d.k = "Enter" THEN WalkIns(m, d.next, p) ELSE [idx |-> idx, d |-> d]

(***************************************************************************)
(* Allocation: map/mod.rs:new_node                                         *)
(***************************************************************************)
NewNode(m, p, v) ==
    LET m1 == IF v # NoVal THEN [m EXCEPT !.c = @ + 1] ELSE m IN
    IF m1.f # <<>>
    THEN LET i == m1.f[Len(m1.f)] IN
         [m |-> [m1 EXCEPT !.f = SubSeq(@, 1, Len(@) - 1), !.a[i] = MkNode(p, v)], i |-> i]
    ELSE [m |-> [m1 EXCEPT !.a = Append(@, MkNode(p, v))], i |-> Len(m1.a) + 1]

(***************************************************************************)
(* The four placements shared by insert (map/mod.rs:349) and               *)
(* VacantEntry::_insert (map/entry.rs:254).  Returns the new map and the   *)
(* slot that now holds the value.                                          *)
(***************************************************************************)
Place(m, idx, d, p, v) ==
    CASE d.k = "Reached" ->
           [m |-> [m EXCEPT !.a[idx].p = p, !.a[idx].v = v,
                            !.c = IF m.a[idx].v = NoVal THEN @ + 1 ELSE @],
            i |-> idx]
      [] d.k = "NewLeaf" ->
           LET nn == NewNode(m, p, v) IN
           [m |-> SetChild(nn.m, idx, nn.i, d.right), i |-> nn.i]
      [] d.k = "NewChild" ->
           LET nn  == NewNode(m, p, v)
               old == Child(nn.m, idx, d.right)
               m2  == SetChild(nn.m, idx, nn.i, d.right)
           IN [m |-> SetChild(m2, nn.i, old, d.childRight), i |-> nn.i]
      [] d.k = "NewBranch" ->
           LET nb  == NewNode(m, d.bp, NoVal)
               nn  == NewNode(nb.m, p, v)
               old == Child(nn.m, idx, d.right)
               m2  == SetChild(nn.m, idx, nb.i, d.right)
               m3  == SetChild(m2, nb.i, nn.i, d.prefixRight)
           IN [m |-> SetChild(m3, nb.i, old, ~d.prefixRight), i |-> nn.i]

MapInsert(m, p, v) ==                                   \* PrefixMap::insert
    LET w   == WalkIns(m, 1, p)
        old == IF w.d.k = "Reached" THEN m.a[w.idx].v ELSE NoVal
    IN [m |-> Place(m, w.idx, w.d, p, v).m, ret |-> Opt(old)]

(***************************************************************************)
(* Removal: map/mod.rs:_remove_node (three cases + collapse of a           *)
(* value-less parent).  par / grp = 0 stand for None.                      *)
(***************************************************************************)
RemoveNode(m, idx, par, parR, grp, grpR) ==
    LET node == m.a[idx]
        val  == node.v
        hasL == node.l # 0
        hasR == node.r # 0
        m0   == [m EXCEPT !.a[idx].v = NoVal, !.c = IF val # NoVal THEN @ - 1 ELSE @]
    IN
    IF hasL /\ hasR THEN [m |-> m0, val |-> val, parRemoved |-> FALSE]
    ELSE IF ~hasL /\ ~hasR THEN
        IF par = 0 THEN [m |-> m0, val |-> val, parRemoved |-> FALSE]
        ELSE LET m1 == PushFree(SetChild(m0, par, 0, parR), idx) IN
             IF grp # 0 /\ m1.a[par].v = NoVal
             THEN LET sib == Child(m1, par, ~parR) IN
                  IF sib # 0
                  THEN [m |-> PushFree(SetChild(m1, grp, sib, grpR), par),
                        val |-> val, parRemoved |-> TRUE]
                  ELSE [m |-> PushFree(SetChild(m1, grp, 0, grpR), par),
                        val |-> val, parRemoved |-> FALSE]
             ELSE [m |-> m1, val |-> val, parRemoved |-> FALSE]
    ELSE \* exactly one child: connect it to the parent
        IF par = 0 THEN [m |-> m0, val |-> val, parRemoved |-> FALSE]
        ELSE LET chR == hasR
                 ch  == Child(m0, idx, chR)
                 m1  == SetChild(m0, idx, 0, chR)
                 m2  == SetChild(m1, par, ch, parR)
             IN [m |-> PushFree(m2, idx), val |-> val, parRemoved |-> FALSE]

\* the search loop of PrefixMap::remove, remembering parent and grand-parent
RECURSIVE FindPath(_, _, _, _, _, _, _)
FindPath(m, idx, p, par, parR, grp, grpR) ==
    LET d == Dir(m, idx, p) IN
    CASE d.k = "Reached" -> [found |-> TRUE, idx |-> idx, par |-> par, parR |-> parR,
                             grp |-> grp, grpR |-> grpR]
      [] d.k = "Enter"   -> FindPath(m, d.next, p, idx, d.right, par, parR)
      [] d.k = "Missing" -> [found |-> FALSE]

MapRemove(m, p) ==                                      \* PrefixMap::remove
    LET fp == FindPath(m, 1, p, 0, FALSE, 0, FALSE) IN
    IF ~fp.found THEN [m |-> m, ret |-> <<>>]
    ELSE LET r == RemoveNode(m, fp.idx, fp.par, fp.parR, fp.grp, fp.grpR)
         IN [m |-> r.m, ret |-> Opt(r.val)]

MapRemoveKeepTree(m, p) ==                              \* PrefixMap::remove_keep_tree
    LET w == Walk(m, 1, p) IN
    IF w.d.k = "Reached" /\ m.a[w.idx].v # NoVal
    THEN [m |-> [m EXCEPT !.a[w.idx].v = NoVal, !.c = @ - 1], ret |-> <<m.a[w.idx].v>>]
    ELSE [m |-> m, ret |-> <<>>]

\* nodes of the sub-tree below i in the order in which _do_remove_children frees them
RECURSIVE FreeOrder(_, _)
FreeOrder(m, i) == IF i = 0 THEN <<>>
                   ELSE <<i>> \o FreeOrder(m, m.a[i].r) \o FreeOrder(m, m.a[i].l)
SeqToSet(s) == {s[i] : i \in 1..Len(s)}

DoRemoveChildren(m, idx, right) ==                      \* map/mod.rs:_do_remove_children
    LET top == Child(m, idx, right)
        ord == FreeOrder(m, top)
        S   == SeqToSet(ord)
        nv  == Cardinality({i \in S : m.a[i].v # NoVal})
        m1  == SetChild(m, idx, 0, right)
    IN [m1 EXCEPT !.a = [i \in DOMAIN m1.a |->
                            IF i \in S THEN [m1.a[i] EXCEPT !.v = NoVal, !.l = 0, !.r = 0]
                            ELSE m1.a[i]],
                  !.f = @ \o ord,
                  !.c = @ - nv]

MapClear == EmptyMap                                    \* PrefixMap::clear

RECURSIVE RemChildLoop(_, _, _, _, _)
RemChildLoop(m, idx, p, par, parR) ==
    LET d == DirIns(m, idx, p) IN
    CASE d.k = "Reached"  -> DoRemoveChildren(m, par, parR)
      [] d.k = "Enter"    -> RemChildLoop(m, d.next, p, idx, d.right)
      [] d.k = "NewLeaf"  -> m
      [] d.k = "NewBranch" -> m
      [] d.k = "NewChild" -> DoRemoveChildren(m, idx, d.right)

MapRemoveChildren(m, p) ==                              \* PrefixMap::remove_children
    IF PLen(p) = 0 THEN MapClear ELSE RemChildLoop(m, 1, p, 1, FALSE)

(***************************************************************************)
(* retain: map/mod.rs:_retain.  The predicate is given extensionally:      *)
(* K.keep = set of keys (bit sequences) for which it answers true,         *)
(* K.panicAt = index of the call at which it panics (0 = never).           *)
(* s = [m, calls, pan]; calls records the prefixes the predicate saw.      *)
(***************************************************************************)
RECURSIVE RetainRec(_, _, _, _, _, _, _)
RetainRec(s, idx, par, parR, grp, grpR, K) ==
    IF s.pan THEN [s |-> s, rm |-> FALSE] ELSE
    LET left == s.m.a[idx].l
        r1   == IF left # 0 THEN RetainRec(s, left, idx, FALSE, par, parR, K)
                ELSE [s |-> s, rm |-> FALSE]
        idxRemoved == r1.rm
        s1    == r1.s
        right == s1.m.a[idx].r
        r2   == IF right # 0 /\ ~s1.pan THEN
                    IF idxRemoved THEN RetainRec(s1, right, par, parR, grp, grpR, K)
                    ELSE [s |-> RetainRec(s1, right, idx, TRUE, par, parR, K).s, rm |-> FALSE]
                ELSE [s |-> s1, rm |-> FALSE]
        s2   == r2.s
        node == s2.m.a[idx]
    IN IF s2.pan \/ node.v = NoVal THEN [s |-> s2, rm |-> r2.rm]
       ELSE LET calls == Append(s2.calls, node.p) IN
            IF Len(calls) = K.panicAt
            THEN [s |-> [s2 EXCEPT !.calls = calls, !.pan = TRUE], rm |-> FALSE]
            ELSE IF node.p.n \in K.keep
            THEN [s |-> [s2 EXCEPT !.calls = calls], rm |-> r2.rm]
            ELSE LET rr == RemoveNode(s2.m, idx, par, parR, grp, grpR) IN
                 [s |-> [s2 EXCEPT !.calls = calls, !.m = rr.m], rm |-> rr.parRemoved]

MapRetain(m, keep, panicAt) ==                          \* PrefixMap::retain / PrefixSet::retain
    LET r == RetainRec([m |-> m, calls |-> <<>>, pan |-> FALSE], 1, 0, FALSE, 0, FALSE,
                       [keep |-> keep, panicAt |-> panicAt]).s
    IN [m |-> r.m, calls |-> r.calls, pan |-> r.pan]

(***************************************************************************)
(* Exact-match and matching observers                                      *)
(***************************************************************************)
Rep(node) == node.p                                     \* the stored representation
PV(node)  == IF node.v = NoVal THEN <<>> ELSE <<[p |-> node.p, v |-> node.v]>>   \* Node::prefix_value

GetAlg(m, p) ==                                         \* get / get_mut
    LET w == Walk(m, 1, p) IN IF w.d.k = "Reached" THEN Opt(m.a[w.idx].v) ELSE <<>>
GetKVAlg(m, p) ==                                       \* get_key_value
    LET w == Walk(m, 1, p) IN IF w.d.k = "Reached" THEN PV(m.a[w.idx]) ELSE <<>>
ContainsAlg(m, p) ==                                    \* contains_key
    LET w == Walk(m, 1, p) IN w.d.k = "Reached" /\ m.a[w.idx].v # NoVal
GetIdx(m, p) ==                                         \* slot of a stored key, 0 if absent
    LET w == Walk(m, 1, p) IN IF w.d.k = "Reached" /\ m.a[w.idx].v # NoVal THEN w.idx ELSE 0

\* get_lpm / get_lpm_prefix / get_lpm_mut: remember the last valued node on the way down
RECURSIVE LpmLoop(_, _, _, _)
LpmLoop(m, idx, p, best) ==
    LET b == IF m.a[idx].v # NoVal THEN idx ELSE best
        d == Dir(m, idx, p)
    IN IF d.k = "Enter" THEN LpmLoop(m, d.next, p, b) ELSE b
LpmIdx(m, p) == LpmLoop(m, 1, p, 0)
LpmAlg(m, p) == LET i == LpmIdx(m, p) IN IF i = 0 THEN <<>> ELSE PV(m.a[i])

\* get_spm: root special case, then the first valued node that is entered
RECURSIVE SpmLoop(_, _, _)
SpmLoop(m, idx, p) ==
    LET d == Dir(m, idx, p) IN
    CASE d.k = "Reached" -> PV(m.a[idx])
      [] d.k = "Enter"   -> IF m.a[d.next].v # NoVal THEN PV(m.a[d.next]) ELSE SpmLoop(m, d.next, p)
      [] d.k = "Missing" -> <<>>
SpmAlg(m, p) == IF m.a[1].v # NoVal THEN PV(m.a[1]) ELSE SpmLoop(m, 1, p)

\* Cover iterator (map/iter.rs: Cover::next), as a handle [idx] with idx = 0 for "not started"
CoverNext(m, h, p) ==
    LET RECURSIVE Go(_)
        Go(idx) == LET d == Dir(m, idx, p) IN
                   IF d.k # "Enter" THEN [h |-> idx, item |-> <<>>]
                   ELSE IF m.a[d.next].v # NoVal THEN [h |-> d.next, item |-> PV(m.a[d.next])]
                   ELSE Go(d.next)
    IN IF h = 0 /\ m.a[1].v # NoVal THEN [h |-> 1, item |-> PV(m.a[1])]
       ELSE Go(IF h = 0 THEN 1 ELSE h)
\* drain a Cover iterator, then call next() `extra` more times; all items in order
RECURSIVE CoverDrain(_, _, _, _)
CoverDrain(m, h, p, extra) ==
    LET s == CoverNext(m, h, p) IN
    IF s.item = <<>> THEN (IF extra = 0 THEN <<>> ELSE CoverDrain(m, s.h, p, extra - 1))
    ELSE s.item \o CoverDrain(m, s.h, p, extra)
CoverAlg(m, p) == CoverDrain(m, 0, p, 2)

(***************************************************************************)
(* Iteration: map/iter.rs Iter::next as a stack machine.  A stack is a     *)
(* sequence of slots, the last element is popped first.                    *)
(***************************************************************************)
IterNext(m, st) ==
    LET RECURSIVE Go(_)
        Go(s) == IF s = <<>> THEN [st |-> <<>>, item |-> <<>>]
                 ELSE LET cur  == s[Len(s)]
                          node == m.a[cur]
                          s1   == SubSeq(s, 1, Len(s) - 1)
                          s2   == IF node.r # 0 THEN Append(s1, node.r) ELSE s1
                          s3   == IF node.l # 0 THEN Append(s2, node.l) ELSE s2
                      IN IF node.v # NoVal THEN [st |-> s3, item |-> <<[p |-> node.p, v |-> node.v, i |-> cur]>>]
                         ELSE Go(s3)
    IN Go(st)
RECURSIVE IterDrain(_, _)
IterDrain(m, st) == LET s == IterNext(m, st) IN
                    IF s.item = <<>> THEN <<>> ELSE s.item \o IterDrain(m, s.st)
IterFrom(m, st) == LET d == IterDrain(m, st) IN [k \in 1..Len(d) |-> [p |-> d[k].p, v |-> d[k].v]]
IterSlots(m, st) == LET d == IterDrain(m, st) IN [k \in 1..Len(d) |-> d[k].i]
IterAll(m) == IterFrom(m, <<1>>)

\* map/iter.rs:lpm_children_iter_start
RECURSIVE ChildrenStartLoop(_, _, _)
ChildrenStartLoop(m, idx, p) ==
    IF KeyEq(m.a[idx].p, p) THEN <<idx>>
    ELSE LET right == ToRight(m.a[idx].p, p)
             c     == Child(m, idx, right)
         IN IF c = 0 THEN <<>>
            ELSE IF Covers(m.a[c].p, p) THEN ChildrenStartLoop(m, c, p)
            ELSE IF Covers(p, m.a[c].p) THEN <<c>>
            ELSE <<>>
ChildrenStart(m, p) == ChildrenStartLoop(m, 1, p)
ChildrenAlg(m, p) == IterFrom(m, ChildrenStart(m, p))

(***************************************************************************)
(* Projections and structural predicates                                   *)
(***************************************************************************)
RECURSIVE Canon(_, _)
Canon(m, i) == IF i = 0 THEN <<>>
               ELSE <<m.a[i].p.n, m.a[i].p.h, m.a[i].v, Canon(m, m.a[i].l), Canon(m, m.a[i].r)>>
Tree(m) == Canon(m, 1)

RECURSIVE ReachFrom(_, _)
ReachFrom(m, i) == IF i = 0 THEN {} ELSE {i} \cup ReachFrom(m, m.a[i].l) \cup ReachFrom(m, m.a[i].r)
Reach(m) == ReachFrom(m, 1)

Entry(node) == [n |-> node.p.n, h |-> node.p.h, v |-> node.v]
EntriesFrom(m, i) == {Entry(m.a[j]) : j \in {k \in ReachFrom(m, i) : m.a[k].v # NoVal}}
Entries(m) == EntriesFrom(m, 1)
NumValued(m) == Cardinality({k \in Reach(m) : m.a[k].v # NoVal})

\* C15: well-formed binary trie
WF(m) ==
    /\ m.a[1].p.n = <<>>
    /\ \A i \in Reach(m) : \A side \in BOOLEAN :
         LET c == Child(m, i, side) IN
         c # 0 => /\ c \in 2..Len(m.a)
                  /\ PLen(m.a[c].p) > PLen(m.a[i].p)
                  /\ Covers(m.a[i].p, m.a[c].p)
                  /\ ToRight(m.a[i].p, m.a[c].p) = side
\* every slot is reachable from the root through exactly one path (a tree, not a DAG)
RECURSIVE CountPaths(_, _, _)
CountPaths(m, i, t) == IF i = 0 THEN 0
                       ELSE (IF i = t THEN 1 ELSE 0) + CountPaths(m, m.a[i].l, t) + CountPaths(m, m.a[i].r, t)
IsTree(m) == \A t \in Reach(m) : CountPaths(m, 1, t) = 1

\* C16: every slot is either part of the tree or on the free list, never both, never neither
Partition(m) ==
    /\ Reach(m) \cap SeqToSet(m.f) = {}
    /\ Reach(m) \cup SeqToSet(m.f) = 1..Len(m.a)
    /\ Cardinality(SeqToSet(m.f)) = Len(m.f)

\* C04: the cached counter
CountOK(m) == m.c = NumValued(m)
Drift(m)   == m.c - NumValued(m)

\* C15: the canonical shape of a key set K (set of bit sequences): the nodes are the
\* root, the keys and the branching points (longest common prefixes of incomparable keys).
CanonNodes(K) == {<<>>} \cup K \cup {SubSeq(a, 1, LcpLenN(a, b)) : a \in K, b \in K}
ShapeNodes(m) == {m.a[i].p.n : i \in Reach(m)}
CanonShape(m) == ShapeNodes(m) = CanonNodes({e.n : e \in Entries(m)})
\* value-less non-root nodes have two children
Compact(m) == \A i \in Reach(m) \ {1} : m.a[i].v = NoVal => m.a[i].l # 0 /\ m.a[i].r # 0
=============================================================================
