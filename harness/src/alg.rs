//! C17: evaluations of the real Prefix operations, logged for validation against Bits.tla,
//! plus an exhaustive in-process sweep of the 8-bit tuple type against an independent oracle.

use crate::codec::*;
use num_traits::ToPrimitive;
use prefix_trie::Prefix;
use rand::rngs::StdRng;
use rand::{Rng, SeedableRng};
use serde_json::{json, Value};
use std::io::Write;
use std::panic::{catch_unwind, AssertUnwindSafe};

fn bits_of(addr: u128, tw: u32) -> Vec<u8> {
    (0..tw).map(|i| ((addr >> (tw - 1 - i)) & 1) as u8).collect()
}
fn val_json<P: PT>(p: &P) -> Value {
    let (a, l) = p.parts();
    json!({"bits": bits_of(a, P::TW), "len": l})
}
fn r128<P: PT>(r: P::R) -> u128 {
    r.to_u128().expect("repr fits u128")
}

/// candidate addresses for length `len`
fn addrs(rng: &mut StdRng, tw: u32, len: u32, exhaustive: bool) -> Vec<u128> {
    if exhaustive {
        return (0..(1u128 << tw)).collect();
    }
    let m = low_mask(tw);
    let bit = |i: i64| -> u128 {
        if i >= 0 && (i as u32) < tw {
            1u128 << (tw - 1 - i as u32)
        } else {
            0
        }
    };
    let mut v = vec![
        0,
        m,
        0xaaaa_aaaa_aaaa_aaaa_aaaa_aaaa_aaaa_aaaa & m,
        0x5555_5555_5555_5555_5555_5555_5555_5555 & m,
        bit(len as i64 - 1),
        bit(len as i64),
        bit(len as i64 + 1),
        m ^ bit(len as i64 - 1),
        m ^ bit(len as i64),
        bit(0),
        bit(tw as i64 - 1),
    ];
    for _ in 0..3 {
        v.push(rng.gen::<u128>() & m);
    }
    v.sort();
    v.dedup();
    v
}

fn mk<P: PT>(addr: u128, len: u32) -> P {
    let a = if P::HOSTS { addr } else { addr & !low_mask(P::TW - len) };
    P::build(a, len as u8)
}

fn unary_line<P: PT>(p: &P) -> Value {
    let r = catch_unwind(AssertUnwindSafe(|| {
        let bitset: Vec<u32> = (0..=255u32).filter(|i| p.is_bit_set(*i as u8)).collect();
        let z = P::zero();
        let frl = P::from_repr_len(p.repr(), Prefix::prefix_len(p));
        json!({
            "pan": false,
            "plen": Prefix::prefix_len(p),
            "mask": bits_of(r128::<P>(p.mask()), P::TW),
            "repr": bits_of(r128::<P>(p.repr()), P::TW),
            "bitset": bitset,
            "zero": val_json(&z),
            "frl": val_json(&frl),
            "eqself": Prefix::eq(p, p) as i32,
            "containsself": Prefix::contains(p, p) as i32,
        })
    }));
    let u = r.unwrap_or(json!({"pan": true}));
    json!({"a": "AlgU", "tw": P::TW, "hosts": P::HOSTS as i32, "p": val_json(p), "u": u})
}

fn binary_line<P: PT>(p: &P, q: &P) -> Value {
    let r = catch_unwind(AssertUnwindSafe(|| {
        json!({
            "pan": false,
            "contains": Prefix::contains(p, q) as i32,
            "contains_rev": Prefix::contains(q, p) as i32,
            "eq": Prefix::eq(p, q) as i32,
            "lcp": val_json(&p.longest_common_prefix(q)),
            "lcp_rev": val_json(&q.longest_common_prefix(p)),
        })
    }));
    let b = r.unwrap_or(json!({"pan": true}));
    json!({"a": "AlgB", "tw": P::TW, "p": val_json(p), "q": val_json(q), "b": b})
}

/// independent oracle on bit vectors (mirrors Bits.tla)
fn oracle_check<P: PT>(p: &P, q: &P) -> Option<String> {
    let (pa, pl) = p.parts();
    let (qa, ql) = q.parts();
    let (pl, ql) = (pl as u32, ql as u32);
    let tw = P::TW;
    let net = |a: u128, l: u32| -> u128 { if l == 0 { 0 } else { (a >> (tw - l)) << (tw - l) } };
    let eqlead = |a: u128, b: u128| -> u32 { ((a ^ b) << (128 - tw)).leading_zeros().min(tw) };
    let covers = pl <= ql && net(pa, pl) == net(qa, pl);
    let keyeq = pl == ql && net(pa, pl) == net(qa, ql);
    let k = pl.min(ql).min(eqlead(net(pa, pl), net(qa, ql)));
    let r = catch_unwind(AssertUnwindSafe(|| {
        let lcp = p.longest_common_prefix(q);
        (Prefix::contains(p, q), Prefix::eq(p, q), lcp.parts())
    }));
    match r {
        Err(_) => Some("panic".into()),
        Ok((c, e, (la, ll))) => {
            if c != covers {
                Some(format!("contains={c} expected {covers}"))
            } else if e != keyeq {
                Some(format!("eq={e} expected {keyeq}"))
            } else if ll as u32 != k || la != net(pa, k) {
                Some(format!("lcp=({la:#x},{ll}) expected ({:#x},{k})", net(pa, k)))
            } else {
                None
            }
        }
    }
}

pub fn run<P: PT>(seed: u64, mode: &str, out: &mut dyn Write) -> Value {
    let mut rng = StdRng::seed_from_u64(seed);
    let tw = P::TW;
    let exhaustive = tw == 8;
    let mut vals: Vec<P> = vec![];
    for len in 0..=tw {
        for a in addrs(&mut rng, tw, len, exhaustive) {
            if !P::HOSTS && (a & low_mask(tw - len)) != 0 {
                continue;
            }
            vals.push(mk::<P>(a, len));
        }
    }
    let mut lines = 0u64;
    for p in &vals {
        writeln!(out, "{}", unary_line(p)).unwrap();
        lines += 1;
    }
    // pairs: every value with partners that are equal / nested / diverge at the boundary bits
    let per = match mode {
        "thorough" => 24,
        _ => 6,
    };
    let mut pairs = 0u64;
    for (i, p) in vals.iter().enumerate() {
        let (pa, pl) = p.parts();
        let pl = pl as u32;
        let mut partners: Vec<P> = vec![];
        let flip = |a: u128, i: i64| -> u128 {
            if i >= 0 && (i as u32) < tw {
                a ^ (1u128 << (tw - 1 - i as u32))
            } else {
                a
            }
        };
        for ql in [pl, pl.saturating_sub(1), (pl + 1).min(tw), 0, tw] {
            partners.push(mk::<P>(pa, ql));
            partners.push(mk::<P>(flip(pa, ql as i64 - 1), ql));
            partners.push(mk::<P>(flip(pa, pl as i64 - 1), ql));
            partners.push(mk::<P>(flip(pa, pl as i64), ql));
        }
        while partners.len() > per {
            let j = rng.gen_range(0..partners.len());
            partners.swap_remove(j);
        }
        for _ in 0..2 {
            partners.push(vals[rng.gen_range(0..vals.len())].clone());
        }
        if exhaustive && mode != "thorough" && i % 3 != (seed % 3) as usize {
            continue;
        }
        for q in &partners {
            writeln!(out, "{}", binary_line(p, q)).unwrap();
            lines += 1;
            pairs += 1;
        }
    }
    // the exhaustive sweep of all ordered pairs of the 8-bit universe (and a large random
    // sample for the wider types) against the in-process oracle
    let mut oracle_pairs = 0u64;
    let mut oracle_fail: Option<Value> = None;
    if exhaustive {
        for p in &vals {
            for q in &vals {
                oracle_pairs += 1;
                if oracle_fail.is_none() {
                    if let Some(d) = oracle_check(p, q) {
                        oracle_fail = Some(json!({"p": val_json(p), "q": val_json(q), "what": d}));
                    }
                }
            }
        }
    } else {
        let n = if mode == "thorough" { 2_000_000 } else { 200_000 };
        for _ in 0..n {
            let p = &vals[rng.gen_range(0..vals.len())];
            let q = &vals[rng.gen_range(0..vals.len())];
            oracle_pairs += 1;
            if oracle_fail.is_none() {
                if let Some(d) = oracle_check(p, q) {
                    oracle_fail = Some(json!({"p": val_json(p), "q": val_json(q), "what": d}));
                }
            }
        }
    }
    if let Some(f) = &oracle_fail {
        // make TLC see the failing pair as well: it is appended as a logged line
        let p = mk::<P>(bits_to_addr(&f["p"]["bits"]), f["p"]["len"].as_u64().unwrap() as u32);
        let q = mk::<P>(bits_to_addr(&f["q"]["bits"]), f["q"]["len"].as_u64().unwrap() as u32);
        writeln!(out, "{}", binary_line(&p, &q)).unwrap();
        lines += 1;
    }
    json!({"ptype": P::NAME, "values": vals.len(), "lines": lines, "pair_lines": pairs,
           "oracle_pairs": oracle_pairs, "oracle_fail": oracle_fail, "exhaustive_values": exhaustive})
}

fn bits_to_addr(b: &Value) -> u128 {
    let bits: Vec<u64> = b.as_array().unwrap().iter().map(|x| x.as_u64().unwrap()).collect();
    let mut a = 0u128;
    for x in bits {
        a = (a << 1) | x as u128;
    }
    a
}
