//! Binding 1 for pairs of collections: set operations between two views, and equality.

use crate::codec::*;
use crate::model::*;
use prefix_trie::trieview::UnionItem;
use prefix_trie::*;
use serde_json::{json, Value};
use std::collections::HashMap;
use std::io::BufRead;

const LIM: usize = 4096;
type ValFn<'f, T> = &'f dyn Fn(&T) -> i32;

fn pvj<P: PT, T>(ctx: &Ctx, x: Option<(&P, &T)>, val: ValFn<T>) -> Value {
    match x {
        Some((p, v)) => json!([{"p": ctx.enc(p), "v": val(v)}]),
        None => json!([]),
    }
}

/// read-only set operations between two views
pub fn ro_op<'a, P: PT, L, R>(
    ctx: &Ctx,
    op: &str,
    va: &TrieView<'a, P, L>,
    vb: &TrieView<'a, P, R>,
    vl: ValFn<L>,
    vr: ValFn<R>,
) -> Value {
    let vb = vb.clone();
    match op {
        "Union" => Value::Array(
            va.union(vb)
                .take(LIM)
                .map(|it| {
                    let (k, l, r) = match &it {
                        UnionItem::Left { prefix, left, right } => ("L", pvj(ctx, Some((*prefix, *left)), vl), pvj(ctx, *right, vr)),
                        UnionItem::Right { prefix, left, right } => ("R", pvj(ctx, *left, vl), pvj(ctx, Some((*prefix, *right)), vr)),
                        UnionItem::Both { prefix, left, right } => {
                            ("B", pvj(ctx, Some((*prefix, *left)), vl), pvj(ctx, Some((*prefix, *right)), vr))
                        }
                    };
                    let mut j = json!({"k": k, "p": ctx.enc(it.prefix()), "l": l, "r": r});
                    // the accessor methods must agree with the variant's fields
                    if pvj(ctx, it.left(), vl) != j["l"]
                        || pvj(ctx, it.right(), vr) != j["r"]
                        || it.both().is_some() != (k == "B")
                    {
                        j["accessors_differ"] = json!(true);
                    }
                    j
                })
                .collect(),
        ),
        "Inter" => Value::Array(
            va.intersection(vb)
                .take(LIM)
                .map(|(p, l, r)| json!({"p": ctx.enc(p), "l": vl(l), "r": vr(r)}))
                .collect(),
        ),
        "Diff" => Value::Array(
            va.difference(vb)
                .take(LIM)
                .map(|d| json!({"p": ctx.enc(d.prefix), "v": vl(d.value), "r": pvj(ctx, d.right, vr)}))
                .collect(),
        ),
        "CovDiff" => Value::Array(
            va.covering_difference(vb)
                .take(LIM)
                .map(|(p, l)| json!({"p": ctx.enc(p), "v": vl(l)}))
                .collect(),
        ),
        other => panic!("unknown read-only pair op {other}"),
    }
}

/// _mut set operations (items only read here; writes are exercised by the C13 / C14 events)
pub fn mut_op<'a, P: PT, L, R>(
    ctx: &Ctx,
    op: &str,
    va: &mut TrieViewMut<'a, P, L>,
    vb: TrieViewMut<'a, P, R>,
    vl: ValFn<L>,
    vr: ValFn<R>,
) -> Value {
    match op {
        "UnionMut" => Value::Array(
            va.union_mut(vb)
                .take(LIM)
                .map(|(p, l, r)| {
                    json!({"p": ctx.enc(p),
                           "l": l.map(|x| json!([vl(x)])).unwrap_or(json!([])),
                           "r": r.map(|x| json!([vr(x)])).unwrap_or(json!([]))})
                })
                .collect(),
        ),
        "InterMut" => Value::Array(
            va.intersection_mut(vb)
                .take(LIM)
                .map(|(p, l, r)| json!({"p": ctx.enc(p), "l": vl(l), "r": vr(r)}))
                .collect(),
        ),
        "DiffMut" => Value::Array(
            va.difference_mut(&vb)
                .take(LIM)
                .map(|d| json!({"p": ctx.enc(d.prefix), "v": vl(d.value), "r": pvj(ctx, d.right, vr)}))
                .collect(),
        ),
        "CovDiffMut" => Value::Array(
            va.covering_difference_mut(&vb)
                .take(LIM)
                .map(|(p, l)| json!({"p": ctx.enc(p), "v": vl(l)}))
                .collect(),
        ),
        other => panic!("unknown mutable pair op {other}"),
    }
}

pub fn is_pair_op(name: &str) -> bool {
    matches!(name, "Union" | "Inter" | "Diff" | "CovDiff" | "UnionMut" | "InterMut" | "DiffMut" | "CovDiffMut" | "Eq")
}

/// Two collections that can be combined.
pub trait PairOps<P: PT, B> {
    fn pair_op(&mut self, other: &mut B, ctx: &Ctx, op: &str, qa: &P, qb: &P) -> Value;
    fn pair_eq(&self, other: &B) -> Value;
    /// C13: run the _mut operation, keep every yielded item alive, then write through the mutable
    /// references of the k-th item (k = 0: of all items).  Returns the number of items.
    fn pair_write(&mut self, other: &mut B, op: &str, qa: &P, qb: &P, k: usize) -> Option<usize>;
}

/// generic body of pair_write
pub fn write_mut_op<'a, P: PT, L, R>(
    op: &str,
    va: &mut TrieViewMut<'a, P, L>,
    vb: TrieViewMut<'a, P, R>,
    k: usize,
    fl: &dyn Fn(&mut L),
    fr: &dyn Fn(&mut R),
) -> usize {
    let sel = |j: usize| k == 0 || k == j + 1;
    match op {
        "UnionMut" => {
            let items: Vec<(&P, Option<&mut L>, Option<&mut R>)> = va.union_mut(vb).take(LIM).collect();
            let n = items.len();
            for (j, (_, l, r)) in items.into_iter().enumerate() {
                if sel(j) {
                    if let Some(l) = l {
                        fl(l);
                    }
                    if let Some(r) = r {
                        fr(r);
                    }
                }
            }
            n
        }
        "InterMut" => {
            let items: Vec<(&P, &mut L, &mut R)> = va.intersection_mut(vb).take(LIM).collect();
            let n = items.len();
            for (j, (_, l, r)) in items.into_iter().enumerate() {
                if sel(j) {
                    fl(l);
                    fr(r);
                }
            }
            n
        }
        "DiffMut" => {
            let items: Vec<_> = va.difference_mut(&vb).take(LIM).collect();
            let n = items.len();
            for (j, d) in items.into_iter().enumerate() {
                if sel(j) {
                    fl(d.value);
                }
            }
            n
        }
        "CovDiffMut" => {
            let items: Vec<(&P, &mut L)> = va.covering_difference_mut(&vb).take(LIM).collect();
            let n = items.len();
            for (j, (_, l)) in items.into_iter().enumerate() {
                if sel(j) {
                    fl(l);
                }
            }
            n
        }
        other => panic!("unknown mutable pair op {other}"),
    }
}
pub fn flip_i32(v: &mut i32) {
    *v = crate::model::flip(*v);
}
pub fn flip_unit(_: &mut ()) {}
pub fn flip_str(v: &mut String) {
    *v = crate::model::flip(v.parse().unwrap()).to_string();
}

macro_rules! impl_pair {
    ($A:ty, $va:expr, $B:ty, $vb:expr, $eq:expr, $fl:expr, $fr:expr) => {
        impl<P: PT> PairOps<P, $B> for $A {
            fn pair_op(&mut self, other: &mut $B, ctx: &Ctx, op: &str, qa: &P, qb: &P) -> Value {
                let vl = $va;
                let vr = $vb;
                if op.ends_with("Mut") {
                    let (Some(mut a), Some(b)) = (self.view_mut_at(qa.clone()), other.view_mut_at(qb.clone())) else {
                        return json!([]);
                    };
                    json!([mut_op(ctx, op, &mut a, b, &vl, &vr)])
                } else {
                    let (Some(a), Some(b)) = ((&*self).view_at(qa.clone()), (&*other).view_at(qb.clone())) else {
                        return json!([]);
                    };
                    json!([ro_op(ctx, op, &a, &b, &vl, &vr)])
                }
            }
            fn pair_eq(&self, other: &$B) -> Value {
                let f: fn(&$A, &$B) -> Value = $eq;
                f(self, other)
            }
            fn pair_write(&mut self, other: &mut $B, op: &str, qa: &P, qb: &P, k: usize) -> Option<usize> {
                let (Some(mut a), Some(b)) = (self.view_mut_at(qa.clone()), other.view_mut_at(qb.clone())) else {
                    return None;
                };
                Some(write_mut_op(op, &mut a, b, k, &$fl, &$fr))
            }
        }
    };
}

fn eq_same<T: PartialEq>(a: &T, b: &T) -> Value {
    let (ab, ba, ne) = (a == b, b == a, a != b);
    if ab != ba || ab == ne || !(a == a) || !(b == b) {
        json!(["EQ-INCONSISTENT", ab, ba, ne])
    } else {
        json!([ab as i32])
    }
}

impl_pair!(PrefixMap<P, i32>, |v: &i32| *v, PrefixMap<P, i32>, |v: &i32| *v, |a, b| eq_same(a, b), flip_i32, flip_i32);
impl_pair!(PrefixSet<P>, |_: &()| 1, PrefixSet<P>, |_: &()| 1, |a, b| eq_same(a, b), flip_unit, flip_unit);
impl_pair!(PrefixMap<P, i32>, |v: &i32| *v, PrefixSet<P>, |_: &()| 1, |_, _| json!(["NA"]), flip_i32, flip_unit);
impl_pair!(PrefixSet<P>, |_: &()| 1, PrefixMap<P, i32>, |v: &i32| *v, |_, _| json!(["NA"]), flip_unit, flip_i32);
// a second value type on the right-hand side (String), to exercise L != R
impl<P: PT> PairOps<P, PrefixMap<P, String>> for PrefixMap<P, i32> {
    fn pair_op(&mut self, other: &mut PrefixMap<P, String>, ctx: &Ctx, op: &str, qa: &P, qb: &P) -> Value {
        let vl = |v: &i32| *v;
        let vr = |v: &String| v.parse::<i32>().unwrap();
        if op.ends_with("Mut") {
            let (Some(mut a), Some(b)) = (self.view_mut_at(qa.clone()), other.view_mut_at(qb.clone())) else {
                return json!([]);
            };
            json!([mut_op(ctx, op, &mut a, b, &vl, &vr)])
        } else {
            let (Some(a), Some(b)) = ((&*self).view_at(qa.clone()), (&*other).view_at(qb.clone())) else {
                return json!([]);
            };
            json!([ro_op(ctx, op, &a, &b, &vl, &vr)])
        }
    }
    fn pair_eq(&self, _other: &PrefixMap<P, String>) -> Value {
        json!(["NA"])
    }
    fn pair_write(&mut self, other: &mut PrefixMap<P, String>, op: &str, qa: &P, qb: &P, k: usize) -> Option<usize> {
        let (Some(mut a), Some(b)) = (self.view_mut_at(qa.clone()), other.view_mut_at(qb.clone())) else {
            return None;
        };
        Some(write_mut_op(op, &mut a, b, k, &flip_i32, &flip_str))
    }
}

#[derive(Default)]
pub struct PairReport {
    pub rows: u64,
    pub executed: u64,
    pub states: u64,
    pub pre_failed: u64,
    pub skipped: u64,
    pub per_action: HashMap<String, u64>,
    pub mismatch_count: u64,
    pub mismatches: Vec<Value>,
    pub samples: Vec<Value>,
    pub per_kind: HashMap<String, u64>,
    pub per_kind_hostfree: HashMap<String, u64>,
}

pub trait FromHist<P: PT>: Sized {
    fn from_hist(h: &Value, ctx: &Ctx) -> Self;
    fn tree_of(&self, ctx: &Ctx) -> Value;
}
impl<P: PT, C: Coll<P>> FromHist<P> for C {
    fn from_hist(h: &Value, ctx: &Ctx) -> Self {
        let mut c = C::default();
        for e in h.as_array().unwrap() {
            let _ = apply::<P, C>(&mut c, e, ctx);
        }
        c
    }
    fn tree_of(&self, ctx: &Ctx) -> Value {
        self.tree(ctx)
    }
}
/// PrefixMap<P, String> built from the same history (values rendered as strings)
#[derive(Clone)]
pub struct StrMap<P>(pub PrefixMap<P, String>);
impl<P: PT> FromHist<P> for StrMap<P> {
    fn from_hist(h: &Value, ctx: &Ctx) -> Self {
        let c: PrefixMap<P, i32> = FromHist::from_hist(h, ctx);
        // same shape: replay the history on the string map
        let mut m: PrefixMap<P, String> = PrefixMap::new();
        for e in h.as_array().unwrap() {
            let p = ctx.dec::<P>(&e["p"]);
            match e["a"].as_str().unwrap() {
                "Insert" => {
                    m.insert(p, e["v"].as_i64().unwrap().to_string());
                }
                "Remove" => {
                    m.remove(&p);
                }
                "RemoveKeepTree" => {
                    m.remove_keep_tree(&p);
                }
                "RemoveChildren" => m.remove_children(&p),
                other => panic!("history event {other} not supported for the string map"),
            }
        }
        let _ = c;
        StrMap(m)
    }
    fn tree_of(&self, ctx: &Ctx) -> Value {
        tree_of_view(ctx, &self.0.view(), &|v: &String| v.parse().unwrap(), 0)
    }
}
impl<P: PT> PairOps<P, StrMap<P>> for PrefixMap<P, i32> {
    fn pair_op(&mut self, other: &mut StrMap<P>, ctx: &Ctx, op: &str, qa: &P, qb: &P) -> Value {
        self.pair_op(&mut other.0, ctx, op, qa, qb)
    }
    fn pair_eq(&self, _other: &StrMap<P>) -> Value {
        json!(["NA"])
    }
    fn pair_write(&mut self, other: &mut StrMap<P>, op: &str, qa: &P, qb: &P, k: usize) -> Option<usize> {
        self.pair_write(&mut other.0, op, qa, qb, k)
    }
}

fn norm_set_values(v: &Value, left_set: bool, right_set: bool) -> Value {
    // expected rows come from a table with values; a set shows every value as 1
    fn pvfix(x: &Value) -> Value {
        match x {
            Value::Array(a) => Value::Array(
                a.iter()
                    .map(|e| {
                        let mut e = e.clone();
                        if e.get("v").is_some() {
                            e["v"] = json!(1);
                        }
                        e
                    })
                    .collect(),
            ),
            _ => x.clone(),
        }
    }
    match v {
        Value::Array(items) => Value::Array(
            items
                .iter()
                .map(|it| {
                    let mut it = it.clone();
                    if let Value::Object(o) = &mut it {
                        if left_set {
                            if let Some(l) = o.get("l").cloned() {
                                o.insert("l".into(), if l.is_array() { fix_opt(&l) } else { json!(1) });
                            }
                            if o.contains_key("v") {
                                o.insert("v".into(), json!(1));
                            }
                        }
                        if right_set {
                            if let Some(r) = o.get("r").cloned() {
                                o.insert("r".into(), if r.is_array() { fix_opt(&r) } else { json!(1) });
                            }
                        }
                    }
                    it
                })
                .collect(),
        ),
        _ => v.clone(),
    };
    fn fix_opt(x: &Value) -> Value {
        // either [v] (plain value) or [{"p","v"}]
        match x {
            Value::Array(a) if a.len() == 1 && a[0].is_number() => json!([1]),
            _ => pvfix(x),
        }
    }
    match v {
        Value::Array(items) => Value::Array(
            items
                .iter()
                .map(|it| {
                    let mut it = it.clone();
                    if let Value::Object(o) = &mut it {
                        if left_set {
                            if let Some(l) = o.get("l").cloned() {
                                o.insert("l".into(), if l.is_array() { fix_opt(&l) } else { json!(1) });
                            }
                            if o.contains_key("v") {
                                o.insert("v".into(), json!(1));
                            }
                        }
                        if right_set {
                            if let Some(r) = o.get("r").cloned() {
                                o.insert("r".into(), if r.is_array() { fix_opt(&r) } else { json!(1) });
                            }
                        }
                    }
                    it
                })
                .collect(),
        ),
        _ => v.clone(),
    }
}

fn norm_tree_values(t: &Value) -> Value {
    let a = t.as_array().unwrap();
    if a.is_empty() {
        return json!([]);
    }
    let v = if a[2].as_i64() == Some(-1) { json!(-1) } else { json!(1) };
    json!([a[0], a[1], v, norm_tree_values(&a[3]), norm_tree_values(&a[4])])
}

pub fn replay_pairs<P: PT, A, B>(input: &mut dyn BufRead, ctx: &Ctx, a_set: bool, b_set: bool, max_mismatch: usize, rep: &mut PairReport)
where
    A: FromHist<P> + PairOps<P, B> + Clone,
    B: FromHist<P> + Clone,
{
    let mut cache: HashMap<String, Option<(A, B)>> = HashMap::new();
    let mut pre: HashMap<String, (Value, Value)> = HashMap::new();
    let mut line = String::new();
    loop {
        crate::model::watch_end();
        line.clear();
        if input.read_line(&mut line).unwrap() == 0 {
            break;
        }
        let Some(row) = crate::replay::parse_row(&line) else { continue };
        if let Some(s) = row.get("s") {
            if pre.len() > 1_500_000 {
                continue;
            }
            pre.insert(serde_json::to_string(s).unwrap(), (row["fa"].clone(), row["fb"].clone()));
            continue;
        }
        if row.get("e").is_none() {
            continue;
        }
        rep.rows += 1;
        let key = serde_json::to_string(&row["h"]).unwrap();
        let Some((fa, fb)) = pre.get(&key) else {
            rep.skipped += 1;
            continue;
        };
        if !cache.contains_key(&key) {
            // rows arrive grouped by state: a small window of rebuilt states is enough
            if cache.len() > 2048 {
                cache.clear();
            }
            let a = A::from_hist(&row["h"][0], ctx);
            let b = B::from_hist(&row["h"][1], ctx);
            let ea = if a_set { norm_tree_values(&ctx.norm_tree(fa)) } else { ctx.norm_tree(fa) };
            let eb = if b_set { norm_tree_values(&ctx.norm_tree(fb)) } else { ctx.norm_tree(fb) };
            let ok = a.tree_of(ctx) == ea && b.tree_of(ctx) == eb;
            rep.states += 1;
            cache.insert(key.clone(), if ok { Some((a, b)) } else { None });
        }
        let Some((a, b)) = cache.get_mut(&key).unwrap() else {
            rep.pre_failed += 1;
            continue;
        };
        let e = &row["e"];
        let op = e["a"].as_str().unwrap();
        crate::model::watch_begin(e);
        let out = if op == "PairWrite" {
            let qa = ctx.dec::<P>(&e["qa"]);
            let qb = ctx.dec::<P>(&e["qb"]);
            let mop = e["op"].as_str().unwrap().to_string();
            let k = e["k"].as_u64().unwrap_or(0) as usize;
            let (mut a2, mut b2) = (a.clone(), b.clone());
            guarded(|| match a2.pair_write(&mut b2, &mop, &qa, &qb, k) {
                Some(n) => json!([{"n": n, "ta": a2.tree_of(ctx), "tb": b2.tree_of(ctx)}]),
                None => json!([]),
            })
        } else if op == "Eq" {
            let r = a.pair_eq(b);
            if r == json!(["NA"]) {
                rep.skipped += 1;
                continue;
            }
            Outcome { ret: r, pan: false }
        } else {
            let qa = ctx.dec::<P>(&e["qa"]);
            let qb = ctx.dec::<P>(&e["qb"]);
            guarded(|| a.pair_op(b, ctx, op, &qa, &qb))
        };
        rep.executed += 1;
        *rep.per_action.entry(op.to_string()).or_default() += 1;
        let mut exp = ctx.norm(&row["r"]);
        if op == "PairWrite" {
            if let Some(x) = exp.get(0).cloned() {
                let ta = if a_set { norm_tree_values(&ctx.norm_tree(&x["ta"])) } else { ctx.norm_tree(&x["ta"]) };
                let tb = if b_set { norm_tree_values(&ctx.norm_tree(&x["tb"])) } else { ctx.norm_tree(&x["tb"]) };
                exp = json!([{"n": x["n"], "ta": ta, "tb": tb}]);
            }
        } else if (a_set || b_set) && op != "Eq" {
            if let Some(inner) = exp.get(0).cloned() {
                exp = json!([norm_set_values(&inner, a_set, b_set)]);
            }
        }
        if rep.samples.len() < 3 && rep.executed % 4999 == 2500 {
            rep.samples.push(json!({"h": row["h"], "e": e, "r": out.ret}));
        }
        // for an item stored on both sides either stored representation may be reported (C18)
        let both_free = |v: &Value| -> Value {
            let mut v = v.clone();
            if let Some(items) = v.get_mut(0).and_then(|x| x.as_array_mut()) {
                for it in items.iter_mut() {
                    let both = it.get("k").map(|k| k == "B").unwrap_or(false)
                        || (it.get("k").is_none() && it.get("l").map(|l| !l.is_array() || l.as_array().map(|a| a.len() == 1).unwrap_or(false)).unwrap_or(false)
                            && it.get("r").map(|r| !r.is_array() || r.as_array().map(|a| a.len() == 1).unwrap_or(false)).unwrap_or(false)
                            && it.get("v").is_none());
                    if both {
                        if let Some(p) = it.get_mut("p") {
                            p["h"] = json!("*");
                        }
                        for side in ["l", "r"] {
                            if let Some(x) = it.get_mut(side).and_then(|x| x.get_mut(0)).and_then(|x| x.get_mut("p")) {
                                x["h"] = json!("*");
                            }
                        }
                    }
                }
            }
            v
        };
        let relaxed_equal = matches!(op, "Union" | "UnionMut" | "Inter" | "InterMut") && both_free(&out.ret) == both_free(&exp);
        if out.pan || (out.ret != exp && !relaxed_equal) {
            rep.mismatch_count += 1;
            let slot = format!("{}/{}", if out.pan { "pan" } else { "ret" }, op);
            if !crate::replay::nonzero_host_pub(&row["h"]) {
                *rep.per_kind_hostfree.entry(slot.clone()).or_default() += 1;
            }
            let n = rep.per_kind.entry(slot).or_default();
            *n += 1;
            if *n <= 6 && rep.mismatches.len() < max_mismatch * 4 {
                rep.mismatches.push(json!({"kind": if out.pan {"pan"} else {"ret"}, "h": row["h"], "e": e,
                    "expected": exp, "got": out.ret, "row": {"r": row["r"], "fa": fa, "fb": fb}}));
            }
        }
    }
}

pub fn pair_report_json(rep: &PairReport, ptype: &str, coll: &str) -> Value {
    json!({"ptype": ptype, "coll": coll, "rows": rep.rows, "executed": rep.executed, "states": rep.states,
        "pre_failed": rep.pre_failed, "skipped_unsupported": rep.skipped, "per_action": rep.per_action,
        "mismatch_count": rep.mismatch_count, "mismatches": rep.mismatches, "samples": rep.samples,
        "per_kind": rep.per_kind, "per_kind_hostfree": rep.per_kind_hostfree})
}
