//! Interpreter of specification events on the real collections, and the projection of a real
//! collection into the specification's vocabulary.

use crate::codec::*;
use prefix_trie::map::VerifSnapshot;
use prefix_trie::*;
use serde_json::{json, Value};
use std::panic::{catch_unwind, AssertUnwindSafe};

/// Mapping between the table's key universe and the concrete width.
#[derive(Clone, Debug)]
pub struct Ctx {
    pub tw: u32,
    /// (base in the table, base in the concrete universe)
    pub base: Option<(Vec<u8>, Vec<u8>)>,
}

impl Ctx {
    pub fn plain(tw: u32) -> Self {
        Ctx { tw, base: None }
    }
    /// Stretch the one-bit base `<<1>>` of a boundary table to `tw - keylen` bits.
    pub fn stretched(tw: u32, keylen: u32) -> Self {
        let bl = tw - keylen;
        let mut real = vec![1u8];
        for i in 1..bl {
            real.push(if i % 3 == 0 { 1 } else { 0 });
        }
        Ctx {
            tw,
            base: Some((vec![1], real)),
        }
    }
    pub fn dec_n(&self, n: &[u8]) -> Vec<u8> {
        match &self.base {
            Some((tb, rb)) if n.starts_with(tb) && !n.is_empty() => {
                let mut v = rb.clone();
                v.extend_from_slice(&n[tb.len()..]);
                v
            }
            _ => n.to_vec(),
        }
    }
    pub fn enc_n(&self, n: &[u8]) -> Vec<u8> {
        match &self.base {
            Some((tb, rb)) if n.starts_with(rb) && !n.is_empty() => {
                let mut v = tb.clone();
                v.extend_from_slice(&n[rb.len()..]);
                v
            }
            _ => n.to_vec(),
        }
    }
    pub fn bits(v: &Value) -> Vec<u8> {
        v.as_array()
            .expect("bits")
            .iter()
            .map(|b| b.as_u64().unwrap() as u8)
            .collect()
    }
    /// decode {"n":[..],"h":"tok"}
    pub fn dec<P: PT>(&self, v: &Value) -> P {
        let n = self.dec_n(&Self::bits(&v["n"]));
        let hl = self.tw - n.len() as u32;
        let host = host_val(v["h"].as_str().expect("h"), hl);
        P::from_sp(&SP { n, host })
    }
    pub fn enc<P: PT>(&self, p: &P) -> Value {
        let sp = p.to_sp();
        let hl = self.tw - sp.n.len() as u32;
        json!({"n": self.enc_n(&sp.n), "h": host_tok(sp.host, hl)})
    }
    /// normalise the host tokens of an expected value for this width: tokens that denote the
    /// same bits at a given host length are identified.
    pub fn norm(&self, v: &Value) -> Value {
        match v {
            Value::Object(o) if o.contains_key("n") && o.contains_key("h") => {
                let n = self.dec_n(&Self::bits(&o["n"]));
                let hl = self.tw - n.len() as u32;
                let tok = host_tok(host_val(o["h"].as_str().unwrap(), hl), hl);
                let mut o2 = o.clone();
                o2.insert("h".into(), Value::String(tok));
                Value::Object(o2)
            }
            Value::Object(o) => Value::Object(o.iter().map(|(k, x)| (k.clone(), self.norm(x))).collect()),
            Value::Array(a) => Value::Array(a.iter().map(|x| self.norm(x)).collect()),
            _ => v.clone(),
        }
    }
    /// normalise a canonical tree [n, h, v, l, r]
    pub fn norm_tree(&self, t: &Value) -> Value {
        let a = t.as_array().unwrap();
        if a.is_empty() {
            return json!([]);
        }
        let n = self.dec_n(&Self::bits(&a[0]));
        let hl = self.tw - n.len() as u32;
        let tok = host_tok(host_val(a[1].as_str().unwrap(), hl), hl);
        json!([a[0], tok, a[2], self.norm_tree(&a[3]), self.norm_tree(&a[4])])
    }
}

pub fn opt(v: Option<i32>) -> Value {
    match v {
        Some(x) => json!([x]),
        None => json!([]),
    }
}
pub fn pv<P: PT>(ctx: &Ctx, x: Option<(&P, i32)>) -> Value {
    match x {
        Some((p, v)) => json!([{"p": ctx.enc(p), "v": v}]),
        None => json!([]),
    }
}
pub fn pvs<P: PT>(ctx: &Ctx, it: impl Iterator<Item = (P, i32)>) -> Value {
    let mut out = vec![];
    for (i, (p, v)) in it.enumerate() {
        if i > 4096 {
            out.push(json!("DIVERGED"));
            break;
        }
        out.push(json!({"p": ctx.enc(&p), "v": v}));
    }
    Value::Array(out)
}

pub struct Outcome {
    pub ret: Value,
    pub pan: bool,
}

pub fn guarded<F: FnOnce() -> Value>(f: F) -> Outcome {
    match catch_unwind(AssertUnwindSafe(f)) {
        Ok(v) => Outcome { ret: v, pan: false },
        Err(_) => Outcome {
            ret: json!([]),
            pan: true,
        },
    }
}

/// The canonical tree observed through the public view API:
/// [n, h, v, left, right], [] for "no child", v = -1 for a value-less node.
pub fn tree_of_view<P: PT, T>(ctx: &Ctx, v: &TrieView<'_, P, T>, val: &dyn Fn(&T) -> i32, depth: u32) -> Value {
    let budget = std::cell::Cell::new(8192usize);
    tree_walk(ctx, v, val, depth, &budget)
}

fn tree_walk<P: PT, T>(
    ctx: &Ctx,
    v: &TrieView<'_, P, T>,
    val: &dyn Fn(&T) -> i32,
    depth: u32,
    budget: &std::cell::Cell<usize>,
) -> Value {
    // a well-formed trie is at most width + 1 nodes deep (C15) and the walk visits each node once
    if depth > ctx.tw + 2 || budget.get() == 0 {
        return json!(["DEPTH"]);
    }
    budget.set(budget.get() - 1);
    let p = ctx.enc(v.prefix());
    let value = v.value().map(val).unwrap_or(-1);
    let l = v.left().map(|x| tree_walk(ctx, &x, val, depth + 1, budget)).unwrap_or(json!([]));
    let r = v.right().map(|x| tree_walk(ctx, &x, val, depth + 1, budget)).unwrap_or(json!([]));
    json!([p["n"], p["h"], value, l, r])
}

pub fn acct(s: &VerifSnapshot) -> Value {
    json!([s.table_len, s.free.len(), s.count])
}

/// C16 on the real arena: every slot is reachable from the root or on the free list, never
/// both, never neither; the free list has no duplicates.  Returns a description on failure.
pub fn partition_violation(s: &VerifSnapshot) -> Option<String> {
    let n = s.table_len;
    let mut reach = vec![0u32; n];
    let mut stack = vec![0usize];
    let mut steps = 0;
    while let Some(i) = stack.pop() {
        steps += 1;
        if steps > 4 * n + 8 {
            return Some("cycle or shared node in the arena".into());
        }
        if i >= n {
            return Some(format!("child index {i} out of bounds {n}"));
        }
        reach[i] += 1;
        if let Some(l) = s.slots[i].0 {
            stack.push(l);
        }
        if let Some(r) = s.slots[i].1 {
            stack.push(r);
        }
    }
    let mut free = vec![0u32; n];
    for &f in &s.free {
        if f >= n {
            return Some(format!("free index {f} out of bounds {n}"));
        }
        free[f] += 1;
    }
    for i in 0..n {
        if reach[i] > 1 {
            return Some(format!("slot {i} reachable {} times", reach[i]));
        }
        if free[i] > 1 {
            return Some(format!("slot {i} is on the free list {} times", free[i]));
        }
        if reach[i] == 1 && free[i] == 1 {
            return Some(format!("slot {i} is both in the tree and on the free list"));
        }
        if reach[i] == 0 && free[i] == 0 {
            return Some(format!("slot {i} is neither in the tree nor on the free list (leaked)"));
        }
    }
    None
}

/// Common interface of PrefixMap<P, i32> and PrefixSet<P> (values of a set read as 1).
pub trait Coll<P: PT>: Clone + Default {
    const IS_SET: bool;
    fn insert(&mut self, p: P, v: i32) -> Option<i32>;
    fn remove(&mut self, p: &P) -> Option<i32>;
    fn remove_keep_tree(&mut self, p: &P) -> Option<i32>;
    fn remove_children(&mut self, p: &P);
    fn clear(&mut self);
    fn retain(&mut self, f: &mut dyn FnMut(&P, i32) -> bool);
    fn get(&self, p: &P) -> Option<i32>;
    fn get_kv(&self, p: &P) -> Option<(P, i32)>;
    fn contains(&self, p: &P) -> bool;
    fn lpm(&self, p: &P) -> Option<(P, i32)>;
    fn spm(&self, p: &P) -> Option<(P, i32)>;
    fn cover(&self, p: &P, extra: usize) -> Vec<(P, i32)>;
    fn children(&self, p: &P) -> Vec<(P, i32)>;
    fn entries(&self) -> Vec<(P, i32)>;
    fn len(&self) -> usize;
    fn is_empty(&self) -> bool;
    fn tree(&self, ctx: &Ctx) -> Value;
    fn snap(&self) -> VerifSnapshot;
    fn as_map(&mut self) -> Option<&mut PrefixMap<P, i32>>;
    /// view_at(p) / view_mut_at(p): complete description of the sub-view graph
    fn view_desc(&mut self, ctx: &Ctx, p: &P) -> Value;
    /// view_at(p0) then find / find_exact / find_lpm (q), read-only and mutable
    fn find_from(&mut self, ctx: &Ctx, p0: &P, q: &P, kind: &str) -> Value;
    /// every full-traversal API (C03) drained, cloned after j items, polled after exhaustion;
    /// Some(description) if any of them disagrees with `iter()`
    fn iter_kinds_disagree(&self) -> Option<String> {
        None
    }
    /// get_lpm_prefix / get_spm_prefix / cover_keys / cover_values vs their full twins
    fn variants_disagree(&self, _p: &P) -> Option<String> {
        None
    }
    /// C19: [clone == self, clone unaffected by mutating self, self unaffected by mutating the clone]
    fn clone_check(&self, fresh: &P) -> Value;
    /// C19: [collect(iter()) == self, collecting twice gives the same shape]
    fn collect_check(&self, ctx: &Ctx) -> Value;
    /// Default iterators, Debug, view clones, IntoIterator of views
    fn misc_check(&self, ctx: &Ctx) -> Value;
    /// C19: serialize + deserialize gives an equal map (None: not available for this collection)
    fn serde_check(&self) -> Option<Value> {
        None
    }
    /// an observation-relative line (see trace::obs_event_over) over the given table universe
    fn obs_line(&self, _ctx: &Ctx, _universe: &[Vec<u8>]) -> Option<String> {
        None
    }
}

const LIM: usize = 4096;

impl<P: PT> Coll<P> for PrefixMap<P, i32> {
    const IS_SET: bool = false;
    fn insert(&mut self, p: P, v: i32) -> Option<i32> {
        PrefixMap::insert(self, p, v)
    }
    fn remove(&mut self, p: &P) -> Option<i32> {
        PrefixMap::remove(self, p)
    }
    fn remove_keep_tree(&mut self, p: &P) -> Option<i32> {
        PrefixMap::remove_keep_tree(self, p)
    }
    fn remove_children(&mut self, p: &P) {
        PrefixMap::remove_children(self, p)
    }
    fn clear(&mut self) {
        PrefixMap::clear(self)
    }
    fn retain(&mut self, f: &mut dyn FnMut(&P, i32) -> bool) {
        PrefixMap::retain(self, |p, v| f(p, *v))
    }
    fn get(&self, p: &P) -> Option<i32> {
        PrefixMap::get(self, p).copied()
    }
    fn get_kv(&self, p: &P) -> Option<(P, i32)> {
        self.get_key_value(p).map(|(p, v)| (p.clone(), *v))
    }
    fn contains(&self, p: &P) -> bool {
        self.contains_key(p)
    }
    fn lpm(&self, p: &P) -> Option<(P, i32)> {
        self.get_lpm(p).map(|(p, v)| (p.clone(), *v))
    }
    fn spm(&self, p: &P) -> Option<(P, i32)> {
        self.get_spm(p).map(|(p, v)| (p.clone(), *v))
    }
    fn cover(&self, p: &P, extra: usize) -> Vec<(P, i32)> {
        let mut it = PrefixMap::cover(self, p);
        let mut out = vec![];
        let mut nones = 0;
        while out.len() < LIM {
            match it.next() {
                Some((p, v)) => out.push((p.clone(), *v)),
                None => {
                    if nones == extra {
                        break;
                    }
                    nones += 1;
                }
            }
        }
        out
    }
    fn children(&self, p: &P) -> Vec<(P, i32)> {
        PrefixMap::children(self, p).take(LIM).map(|(p, v)| (p.clone(), *v)).collect()
    }
    fn entries(&self) -> Vec<(P, i32)> {
        self.iter().take(LIM).map(|(p, v)| (p.clone(), *v)).collect()
    }
    fn len(&self) -> usize {
        PrefixMap::len(self)
    }
    fn is_empty(&self) -> bool {
        PrefixMap::is_empty(self)
    }
    fn tree(&self, ctx: &Ctx) -> Value {
        tree_of_view(ctx, &self.view(), &|v: &i32| *v, 0)
    }
    fn snap(&self) -> VerifSnapshot {
        self.verif_snapshot()
    }
    fn as_map(&mut self) -> Option<&mut PrefixMap<P, i32>> {
        Some(self)
    }
    fn misc_check(&self, ctx: &Ctx) -> Value {
        let d1 = prefix_trie::map::Iter::<P, i32>::default().next().is_none()
            && prefix_trie::map::IterMut::<P, i32>::default().next().is_none();
        let dbg = format!("{:?}", self);
        // Debug formatting returns (C20); what it prints is not the properties' concern
        let d2 = dbg.len() < usize::MAX;
        let v = self.view();
        let val = |x: &i32| *x;
        let a = crate::views::short(ctx, &v, &val);
        let b = crate::views::short(ctx, &v.clone().view(), &val);
        let vd = format!("{:?}", v);
        let d3 = a == b && vd.len() < usize::MAX;
        let it1: Vec<(P, i32)> = v.clone().into_iter().take(LIM).map(|(p, x)| (p.clone(), *x)).collect();
        let it2: Vec<(P, i32)> = v.iter().take(LIM).map(|(p, x)| (p.clone(), *x)).collect();
        json!([d1 as i32, d2 as i32, d3 as i32, (it1 == it2) as i32])
    }
    fn clone_check(&self, fresh: &P) -> Value {
        let before = self.entries();
        let mut c = self.clone();
        let eq = (c == *self && *self == c) as i32;
        // mutate the clone: the original must not move
        c.insert(fresh.clone(), 77);
        if let Some((p, _)) = before.first() {
            c.remove(p);
        }
        for v in c.values_mut() {
            *v += 1000;
        }
        let ind1 = (self.entries() == before) as i32;
        // mutate a second original: its earlier clone must not move
        let mut o = self.clone();
        let c2 = o.clone();
        o.clear();
        o.insert(fresh.clone(), 5);
        let ind2 = (c2.entries() == before && c2.len() == before.len()) as i32;
        json!([eq, ind1, ind2])
    }
    fn collect_check(&self, ctx: &Ctx) -> Value {
        let c: PrefixMap<P, i32> = self.iter().map(|(p, v)| (p.clone(), *v)).collect();
        let c2: PrefixMap<P, i32> = c.clone().into_iter().collect();
        let eq = (c == *self && *self == c && c.len() == self.entries().len()) as i32;
        let same = (Coll::<P>::tree(&c, ctx) == Coll::<P>::tree(&c2, ctx)) as i32;
        json!([eq, same])
    }
    fn serde_check(&self) -> Option<Value> {
        // through a string-keyed prefix type (serde_json needs string keys)
        let m: PrefixMap<crate::codec::StrPfx, i32> = self.iter().map(|(p, v)| (crate::codec::StrPfx::of(p), *v)).collect();
        let s = serde_json::to_string(&m).ok()?;
        let back: PrefixMap<crate::codec::StrPfx, i32> = serde_json::from_str(&s).ok()?;
        let ok = back == m && m == back && back.len() == m.len()
            && back.iter().map(|(p, v)| (p.clone(), *v)).collect::<Vec<_>>() == m.iter().map(|(p, v)| (p.clone(), *v)).collect::<Vec<_>>();
        Some(json!([ok as i32]))
    }
    fn iter_kinds_disagree(&self) -> Option<String> {
        let base: Vec<(P, i32)> = self.iter().take(LIM).map(|(p, v)| (p.clone(), *v)).collect();
        let keys: Vec<P> = base.iter().map(|x| x.0.clone()).collect();
        let vals: Vec<i32> = base.iter().map(|x| x.1).collect();
        macro_rules! chk {
            ($name:expr, $got:expr, $exp:expr) => {
                if $got != $exp {
                    return Some(format!("{} yields {:?}, iter() yields {:?}", $name, $got, $exp));
                }
            };
        }
        chk!("keys", self.keys().take(LIM).cloned().collect::<Vec<_>>(), keys);
        chk!("values", self.values().take(LIM).copied().collect::<Vec<_>>(), vals);
        chk!("&map", (&*self).into_iter().take(LIM).map(|(p, v)| (p.clone(), *v)).collect::<Vec<_>>(), base);
        let mut c = self.clone();
        chk!("iter_mut", c.iter_mut().take(LIM).map(|(p, v)| (p.clone(), *v)).collect::<Vec<_>>(), base);
        chk!("values_mut", c.values_mut().take(LIM).map(|v| *v).collect::<Vec<_>>(), vals);
        chk!("into_iter", self.clone().into_iter().take(LIM).collect::<Vec<_>>(), base);
        chk!("into_keys", self.clone().into_keys().take(LIM).collect::<Vec<_>>(), keys);
        chk!("into_values", self.clone().into_values().take(LIM).collect::<Vec<_>>(), vals);
        chk!("view().iter", self.view().iter().take(LIM).map(|(p, v)| (p.clone(), *v)).collect::<Vec<_>>(), base);
        // clones taken after j items yield exactly the remainder; exhausted iterators stay exhausted
        for j in 0..=base.len().min(6) {
            let mut it = self.iter();
            for _ in 0..j {
                it.next();
            }
            let cl = it.clone();
            let rest: Vec<(P, i32)> = cl.take(LIM).map(|(p, v)| (p.clone(), *v)).collect();
            if rest != base[j.min(base.len())..].to_vec() {
                return Some(format!("clone of iter() after {j} items yields {:?}", rest));
            }
            let mut ik = self.clone().into_iter();
            for _ in 0..j {
                ik.next();
            }
            let rest2: Vec<(P, i32)> = ik.clone().take(LIM).collect();
            if rest2 != base[j.min(base.len())..].to_vec() {
                return Some(format!("clone of into_iter() after {j} items yields {:?}", rest2));
            }
        }
        let mut it = self.iter();
        let mut n = 0;
        while it.next().is_some() && n < LIM {
            n += 1;
        }
        for _ in 0..3 {
            if it.next().is_some() {
                return Some("iter() yields an item after returning None".into());
            }
        }
        let mut it = self.clone().into_iter();
        while it.next().is_some() {}
        for _ in 0..3 {
            if it.next().is_some() {
                return Some("into_iter() yields an item after returning None".into());
            }
        }
        None
    }
    fn variants_disagree(&self, p: &P) -> Option<String> {
        let lpm = self.get_lpm(p).map(|(q, _)| q.clone());
        if self.get_lpm_prefix(p).cloned() != lpm {
            return Some("get_lpm_prefix differs from get_lpm".into());
        }
        let mut c = self.clone();
        if c.get_lpm_mut(p).map(|(q, v)| (q.clone(), *v)) != self.get_lpm(p).map(|(q, v)| (q.clone(), *v)) {
            return Some("get_lpm_mut differs from get_lpm".into());
        }
        if self.get_spm_prefix(p).cloned() != self.get_spm(p).map(|(q, _)| q.clone()) {
            return Some("get_spm_prefix differs from get_spm".into());
        }
        let cov: Vec<(P, i32)> = PrefixMap::cover(self, p).take(LIM).map(|(q, v)| (q.clone(), *v)).collect();
        if self.cover_keys(p).take(LIM).cloned().collect::<Vec<_>>() != cov.iter().map(|x| x.0.clone()).collect::<Vec<_>>() {
            return Some("cover_keys differs from cover".into());
        }
        if self.cover_values(p).take(LIM).copied().collect::<Vec<_>>() != cov.iter().map(|x| x.1).collect::<Vec<_>>() {
            return Some("cover_values differs from cover".into());
        }
        let ch: Vec<(P, i32)> = PrefixMap::children(self, p).take(LIM).map(|(q, v)| (q.clone(), *v)).collect();
        if self.clone().into_children(p).take(LIM).collect::<Vec<_>>() != ch {
            return Some("into_children differs from children".into());
        }
        None
    }
    fn obs_line(&self, ctx: &Ctx, universe: &[Vec<u8>]) -> Option<String> {
        let real: Vec<Vec<u8>> = universe.iter().map(|n| ctx.dec_n(n)).collect();
        let queries: Vec<Value> = universe.iter().map(|n| json!({"n": n, "h": "0"})).collect();
        let mut l = crate::trace::obs_event_over(ctx, self, &real, &queries);
        l["nolen"] = json!(true);
        Some(serde_json::to_string(&l).unwrap())
    }
    fn view_desc(&mut self, ctx: &Ctx, p: &P) -> Value {
        let val = |v: &i32| *v;
        let ro = crate::views::view_desc(ctx, (&*self).view_at(p.clone()), &val);
        let rw = match self.view_mut_at(p.clone()) {
            Some(v) => json!([crate::views::desc_mut(ctx, v, &val, 0)]),
            None => json!([]),
        };
        // left()/right() of the mutable view agree with split()
        if let Some(v) = self.view_mut_at(p.clone()) {
            let s = crate::views::sides_mut(ctx, v, &val);
            let exp_left = rw[0]["l"].get(0).map(|d| json!({"p": d["p"], "v": d["v"], "it": d["it"]}));
            let got_left = if s["left"].is_null() { None } else { Some(s["left"].clone()) };
            if exp_left != got_left {
                return json!(["LEFT-DIFFERS", exp_left, got_left]);
            }
        }
        crate::views::both_desc(ro, rw)
    }
    fn find_from(&mut self, ctx: &Ctx, p0: &P, q: &P, kind: &str) -> Value {
        let val = |v: &i32| *v;
        let ro = crate::views::find_ro(ctx, (&*self).view_at(p0.clone()), q.clone(), kind, &val);
        let rw = crate::views::find_mut(ctx, self.view_mut_at(p0.clone()), q.clone(), kind, &val);
        // view_at on a view equals find
        if kind == "find" {
            let va = match (&*self).view_at(p0.clone()) {
                Some(v) => match v.clone().view_at(q.clone()) {
                    Some(x) => json!([{"ok": 1, "d": crate::views::short(ctx, &x, &val)}]),
                    None => json!([{"ok": 0, "d": crate::views::short(ctx, &v, &val)}]),
                },
                None => json!([]),
            };
            if va != ro {
                return json!(["VIEW_AT-DIFFERS", ro, va]);
            }
        }
        crate::views::both_desc(ro, rw)
    }
}

impl<P: PT> Coll<P> for PrefixSet<P> {
    const IS_SET: bool = true;
    fn insert(&mut self, p: P, _v: i32) -> Option<i32> {
        if PrefixSet::insert(self, p) {
            None
        } else {
            Some(1)
        }
    }
    fn remove(&mut self, p: &P) -> Option<i32> {
        PrefixSet::remove(self, p).then_some(1)
    }
    fn remove_keep_tree(&mut self, p: &P) -> Option<i32> {
        PrefixSet::remove_keep_tree(self, p).then_some(1)
    }
    fn remove_children(&mut self, p: &P) {
        PrefixSet::remove_children(self, p)
    }
    fn clear(&mut self) {
        PrefixSet::clear(self)
    }
    fn retain(&mut self, f: &mut dyn FnMut(&P, i32) -> bool) {
        PrefixSet::retain(self, |p| f(p, 1))
    }
    fn get(&self, p: &P) -> Option<i32> {
        PrefixSet::get(self, p).map(|_| 1)
    }
    fn get_kv(&self, p: &P) -> Option<(P, i32)> {
        PrefixSet::get(self, p).map(|p| (p.clone(), 1))
    }
    fn contains(&self, p: &P) -> bool {
        PrefixSet::contains(self, p)
    }
    fn lpm(&self, p: &P) -> Option<(P, i32)> {
        self.get_lpm(p).map(|p| (p.clone(), 1))
    }
    fn spm(&self, p: &P) -> Option<(P, i32)> {
        self.get_spm(p).map(|p| (p.clone(), 1))
    }
    fn cover(&self, p: &P, extra: usize) -> Vec<(P, i32)> {
        let mut it = PrefixSet::cover(self, p);
        let mut out = vec![];
        let mut nones = 0;
        while out.len() < LIM {
            match it.next() {
                Some(p) => out.push((p.clone(), 1)),
                None => {
                    if nones == extra {
                        break;
                    }
                    nones += 1;
                }
            }
        }
        out
    }
    fn children(&self, p: &P) -> Vec<(P, i32)> {
        PrefixSet::children(self, p).take(LIM).map(|p| (p.clone(), 1)).collect()
    }
    fn entries(&self) -> Vec<(P, i32)> {
        self.iter().take(LIM).map(|p| (p.clone(), 1)).collect()
    }
    fn len(&self) -> usize {
        PrefixSet::len(self)
    }
    fn is_empty(&self) -> bool {
        PrefixSet::is_empty(self)
    }
    fn tree(&self, ctx: &Ctx) -> Value {
        tree_of_view(ctx, &self.view(), &|_: &()| 1, 0)
    }
    fn snap(&self) -> VerifSnapshot {
        self.verif_snapshot()
    }
    fn misc_check(&self, ctx: &Ctx) -> Value {
        let d1 = true;
        let dbg = format!("{:?}", self);
        let d2 = dbg.len() < usize::MAX;
        let v = self.view();
        let val = |_: &()| 1;
        let a = crate::views::short(ctx, &v, &val);
        let b = crate::views::short(ctx, &v.clone().view(), &val);
        let d3 = a == b;
        let it1: Vec<P> = v.clone().into_iter().take(LIM).map(|(p, _)| p.clone()).collect();
        let it2: Vec<P> = v.keys().take(LIM).cloned().collect();
        json!([d1 as i32, d2 as i32, d3 as i32, (it1 == it2) as i32])
    }
    fn clone_check(&self, fresh: &P) -> Value {
        let before = self.entries();
        let mut c = self.clone();
        let eq = (c == *self && *self == c) as i32;
        c.insert(fresh.clone());
        if let Some((p, _)) = before.first() {
            c.remove(p);
        }
        let ind1 = (self.entries() == before) as i32;
        let mut o = self.clone();
        let c2 = o.clone();
        o.clear();
        o.insert(fresh.clone());
        let ind2 = (c2.entries() == before && c2.len() == before.len()) as i32;
        json!([eq, ind1, ind2])
    }
    fn collect_check(&self, ctx: &Ctx) -> Value {
        let c: PrefixSet<P> = self.iter().cloned().collect();
        let c2: PrefixSet<P> = c.clone().into_iter().collect();
        let eq = (c == *self && *self == c && c.len() == self.entries().len()) as i32;
        let same = (Coll::<P>::tree(&c, ctx) == Coll::<P>::tree(&c2, ctx)) as i32;
        json!([eq, same])
    }
    fn iter_kinds_disagree(&self) -> Option<String> {
        let base: Vec<P> = self.iter().take(LIM).cloned().collect();
        if (&*self).into_iter().take(LIM).cloned().collect::<Vec<_>>() != base {
            return Some("&set differs from iter()".into());
        }
        if self.clone().into_iter().take(LIM).collect::<Vec<_>>() != base {
            return Some("set.into_iter() differs from iter()".into());
        }
        for j in 0..=base.len().min(6) {
            let mut it = self.iter();
            for _ in 0..j {
                it.next();
            }
            if it.clone().take(LIM).cloned().collect::<Vec<_>>() != base[j.min(base.len())..].to_vec() {
                return Some(format!("clone of set iter() after {j} items differs"));
            }
        }
        let mut it = self.iter();
        while it.next().is_some() {}
        for _ in 0..3 {
            if it.next().is_some() {
                return Some("set iter() yields an item after returning None".into());
            }
        }
        None
    }
    fn as_map(&mut self) -> Option<&mut PrefixMap<P, i32>> {
        None
    }
    fn view_desc(&mut self, ctx: &Ctx, p: &P) -> Value {
        let val = |_: &()| 1;
        let ro = crate::views::view_desc(ctx, (&*self).view_at(p.clone()), &val);
        let rw = match self.view_mut_at(p.clone()) {
            Some(v) => json!([crate::views::desc_mut(ctx, v, &val, 0)]),
            None => json!([]),
        };
        // left()/right() of the mutable view agree with split()
        if let Some(v) = self.view_mut_at(p.clone()) {
            let s = crate::views::sides_mut(ctx, v, &val);
            let exp_left = rw[0]["l"].get(0).map(|d| json!({"p": d["p"], "v": d["v"], "it": d["it"]}));
            let got_left = if s["left"].is_null() { None } else { Some(s["left"].clone()) };
            if exp_left != got_left {
                return json!(["LEFT-DIFFERS", exp_left, got_left]);
            }
        }
        crate::views::both_desc(ro, rw)
    }
    fn find_from(&mut self, ctx: &Ctx, p0: &P, q: &P, kind: &str) -> Value {
        let val = |_: &()| 1;
        let ro = crate::views::find_ro(ctx, (&*self).view_at(p0.clone()), q.clone(), kind, &val);
        let rw = crate::views::find_mut(ctx, self.view_mut_at(p0.clone()), q.clone(), kind, &val);
        // view_at on a view equals find
        if kind == "find" {
            let va = match (&*self).view_at(p0.clone()) {
                Some(v) => match v.clone().view_at(q.clone()) {
                    Some(x) => json!([{"ok": 1, "d": crate::views::short(ctx, &x, &val)}]),
                    None => json!([{"ok": 0, "d": crate::views::short(ctx, &v, &val)}]),
                },
                None => json!([]),
            };
            if va != ro {
                return json!(["VIEW_AT-DIFFERS", ro, va]);
            }
        }
        crate::views::both_desc(ro, rw)
    }
}

pub const PANIC_ARG: i64 = -2;
pub fn flip(v: i32) -> i32 {
    if v == 1 {
        2
    } else {
        1
    }
}

/// A session on one entry handle: map.entry(p) followed by the calls in `ops`.
/// Returns the per-call results; panics (closure or unwrap) propagate to the caller.
pub fn entry_session<P: PT>(map: &mut PrefixMap<P, i32>, p: P, ops: &[Value], ctx: &Ctx, rets: &mut Vec<Value>) {
    use prefix_trie::map::Entry;
    let mut ent: Option<Entry<'_, P, i32>> = Some(map.entry(p));
    for op in ops {
        let Some(e) = ent.take() else { break };
        let o = op["o"].as_str().unwrap();
        let v = op["v"].as_i64().unwrap();
        let boom = v == PANIC_ARG;
        let vi = v as i32;
        match o {
            "get" => {
                rets.push(opt(e.get().copied()));
                ent = Some(e);
            }
            "get_mut" => {
                let mut e = e;
                let r = e.get_mut().map(|x| std::mem::replace(x, vi));
                rets.push(opt(r));
                ent = Some(e);
            }
            "key" => {
                rets.push(json!([ctx.enc(e.key())]));
                ent = Some(e);
            }
            "and_modify" => {
                let e = e.and_modify(|x| {
                    if boom {
                        panic!("injected closure panic");
                    }
                    *x = vi
                });
                rets.push(json!([]));
                ent = Some(e);
            }
            "insert" => rets.push(opt(e.insert(vi))),
            "or_insert" => rets.push(json!([*e.or_insert(vi)])),
            "or_insert_with" => rets.push(json!([*e.or_insert_with(|| {
                if boom {
                    panic!("injected closure panic");
                }
                vi
            })])),
            "or_default" => rets.push(json!([*e.or_default()])),
            "o_key" | "o_get" | "o_get_mut" | "o_insert" | "o_remove" => match e {
                Entry::Occupied(mut oe) => match o {
                    "o_key" => {
                        rets.push(json!([ctx.enc(oe.key())]));
                        ent = Some(Entry::Occupied(oe));
                    }
                    "o_get" => {
                        rets.push(json!([*oe.get()]));
                        ent = Some(Entry::Occupied(oe));
                    }
                    "o_get_mut" => {
                        let old = std::mem::replace(oe.get_mut(), vi);
                        rets.push(json!([old]));
                        ent = Some(Entry::Occupied(oe));
                    }
                    "o_insert" => rets.push(json!([oe.insert(vi)])),
                    _ => {
                        rets.push(json!([oe.remove()]));
                        ent = Some(Entry::Occupied(oe));
                    }
                },
                Entry::Vacant(_) => {
                    rets.push(json!(["KIND-VACANT"]));
                }
            },
            "v_key" | "v_insert" | "v_insert_with" | "v_default" => match e {
                Entry::Vacant(ve) => match o {
                    "v_key" => {
                        rets.push(json!([ctx.enc(ve.key())]));
                        ent = Some(Entry::Vacant(ve));
                    }
                    "v_insert" => rets.push(json!([*ve.insert(vi)])),
                    "v_insert_with" => rets.push(json!([*ve.insert_with(|| {
                        if boom {
                            panic!("injected closure panic");
                        }
                        vi
                    })])),
                    _ => rets.push(json!([*ve.default()])),
                },
                Entry::Occupied(_) => {
                    rets.push(json!(["KIND-OCCUPIED"]));
                }
            },
            other => panic!("unknown entry op {other}"),
        }
    }
}

/// hold *all* yielded mutable references at once, then write through the k-th (or all: k = 0)
pub fn write_through<'a, P: PT + 'a>(ctx: &Ctx, it: impl Iterator<Item = (&'a P, &'a mut i32)>, k: usize) -> Value {
    let mut refs: Vec<(&P, &mut i32)> = it.take(LIM).collect();
    let out: Vec<Value> = refs.iter().map(|(p, v)| json!({"p": ctx.enc(*p), "v": **v})).collect();
    for (j, (_, v)) in refs.iter_mut().enumerate() {
        if k == 0 || k == j + 1 {
            **v = flip(**v);
        }
    }
    Value::Array(out)
}

/// Watchdog state: the event being executed and when it started (C20: every call terminates).
pub static CURRENT: std::sync::Mutex<Option<(std::time::Instant, String)>> = std::sync::Mutex::new(None);
pub fn watch_begin(ev: &Value) {
    if let Ok(mut g) = CURRENT.lock() {
        *g = Some((std::time::Instant::now(), serde_json::to_string(ev).unwrap_or_default()));
    }
}
pub fn watch_end() {
    if let Ok(mut g) = CURRENT.lock() {
        *g = None;
    }
}

/// Execute one specification event on a collection.  `None` = the event kind does not exist
/// for this kind of collection.
pub fn apply<P: PT, C: Coll<P>>(c: &mut C, ev: &Value, ctx: &Ctx) -> Option<Outcome> {
    // heartbeat for the watchdog; everything the harness does until the next heartbeat (the call
    // itself and the observation of the result) must finish within the limit
    watch_begin(ev);
    apply_inner::<P, C>(c, ev, ctx)
}

fn apply_inner<P: PT, C: Coll<P>>(c: &mut C, ev: &Value, ctx: &Ctx) -> Option<Outcome> {
    let a = ev["a"].as_str().expect("event name");
    let p = || ctx.dec::<P>(&ev["p"]);
    let out = match a {
        "Insert" => {
            let v = ev["v"].as_i64().unwrap() as i32;
            guarded(|| opt(c.insert(p(), v)))
        }
        "Remove" => guarded(|| opt(c.remove(&p()))),
        "RemoveKeepTree" => guarded(|| opt(c.remove_keep_tree(&p()))),
        "RemoveChildren" => guarded(|| {
            c.remove_children(&p());
            json!([])
        }),
        "Clear" => guarded(|| {
            c.clear();
            json!([])
        }),
        "Retain" => {
            let keep: Vec<Vec<u8>> = ev["keep"]
                .as_array()
                .unwrap()
                .iter()
                .map(|k| ctx.dec_n(&Ctx::bits(k)))
                .collect();
            let panic_at = ev["panicAt"].as_u64().unwrap_or(0) as usize;
            let mut calls: Vec<Value> = vec![];
            let r = catch_unwind(AssertUnwindSafe(|| {
                c.retain(&mut |q: &P, _v| {
                    calls.push(ctx.enc(q));
                    if calls.len() == panic_at {
                        panic!("injected predicate panic");
                    }
                    keep.contains(&q.to_sp().n)
                })
            }));
            Outcome {
                ret: Value::Array(calls),
                pan: r.is_err(),
            }
        }
        "Entry" | "GetMut" | "LpmMut" | "IterMut" | "ValuesMut" | "ChildrenMut" => {
            let Some(map) = c.as_map() else { return None };
            let k = ev["k"].as_u64().unwrap_or(0) as usize;
            match a {
                "Entry" => {
                    let mut rets = vec![];
                    let r = catch_unwind(AssertUnwindSafe(|| {
                        entry_session(map, p(), ev["ops"].as_array().unwrap(), ctx, &mut rets)
                    }));
                    Outcome {
                        ret: Value::Array(rets),
                        pan: r.is_err(),
                    }
                }
                "GetMut" => {
                    let v = ev["v"].as_i64().unwrap() as i32;
                    guarded(|| opt(map.get_mut(&p()).map(|x| std::mem::replace(x, v))))
                }
                "LpmMut" => {
                    let v = ev["v"].as_i64().unwrap() as i32;
                    guarded(|| match map.get_lpm_mut(&p()) {
                        Some((q, x)) => {
                            let old = std::mem::replace(x, v);
                            json!([{"p": ctx.enc(q), "v": old}])
                        }
                        None => json!([]),
                    })
                }
                "IterMut" => guarded(|| write_through(ctx, map.iter_mut(), k)),
                "ValuesMut" => guarded(|| {
                    // values_mut yields no prefixes: pair the references with the keys read before
                    let keys: Vec<P> = map.keys().take(LIM).cloned().collect();
                    let mut refs: Vec<&mut i32> = map.values_mut().take(LIM).collect();
                    let out: Vec<Value> = refs
                        .iter()
                        .enumerate()
                        .map(|(j, v)| match keys.get(j) {
                            Some(q) => json!({"p": ctx.enc(q), "v": **v}),
                            None => json!({"p": "EXTRA", "v": **v}),
                        })
                        .collect();
                    for (j, v) in refs.iter_mut().enumerate() {
                        if k == 0 || k == j + 1 {
                            **v = flip(**v);
                        }
                    }
                    Value::Array(out)
                }),
                _ => guarded(|| write_through(ctx, map.children_mut(&p()), k)),
            }
        }
        "ViewDesc" => guarded(|| c.view_desc(ctx, &p())),
        "Find" => {
            let q = ctx.dec::<P>(&ev["q"]);
            let kind = ev["kind"].as_str().unwrap();
            guarded(|| c.find_from(ctx, &p(), &q, kind))
        }
        "SplitOp" => {
            let Some(map) = c.as_map() else { return None };
            let op = ev["op"].as_str().unwrap().to_string();
            guarded(|| {
                let vl = |v: &i32| *v;
                // read-only: the two sides of the view
                let ro = match (&*map).view_at(p()) {
                    Some(v) => match (v.left(), v.right()) {
                        (Some(l), Some(r)) => json!([crate::pairs::ro_op(ctx, &op, &l, &r, &vl, &vl)]),
                        _ => json!([]),
                    },
                    None => json!([]),
                };
                // mutable twin on the two halves of a split
                let rw = match map.view_mut_at(p()) {
                    Some(v) => match v.split() {
                        (Some(mut l), Some(r)) => {
                            let m = crate::pairs::mut_op(ctx, &format!("{op}Mut"), &mut l, r, &vl, &vl);
                            json!([m])
                        }
                        _ => json!([]),
                    },
                    None => json!([]),
                };
                // the _mut twins yield the same prefixes with the same presence pattern
                let same = match (ro.get(0), rw.get(0)) {
                    (Some(a), Some(b)) => {
                        let ka: Vec<&Value> = a.as_array().unwrap().iter().map(|x| &x["p"]).collect();
                        let kb: Vec<&Value> = b.as_array().unwrap().iter().map(|x| &x["p"]).collect();
                        ka == kb
                    }
                    (None, None) => true,
                    _ => false,
                };
                if same {
                    ro
                } else {
                    json!(["MUT-DIFFERS", ro, rw])
                }
            })
        }
        "Alias" => {
            let Some(map) = c.as_map() else { return None };
            let how = ev["how"].as_str().unwrap_or("iter");
            guarded(|| {
                let Some(mut v) = map.view_mut_at(p()) else { return json!([]) };
                // every reference stays alive until all of them have been collected
                let mut addrs: Vec<usize> = vec![];
                match how {
                    "iter" => {
                        let refs: Vec<(&P, &mut i32)> = v.iter_mut().take(LIM).collect();
                        addrs.extend(refs.iter().map(|(_, r)| (*r) as *const i32 as usize));
                        for (_, r) in refs {
                            *r = *r; // touch
                        }
                    }
                    "split" => {
                        let (l, r) = v.split();
                        let mut l = l;
                        let mut r = r;
                        let lr: Vec<(&P, &mut i32)> = l.as_mut().map(|x| x.iter_mut().take(LIM).collect()).unwrap_or_default();
                        let rr: Vec<(&P, &mut i32)> = r.as_mut().map(|x| x.iter_mut().take(LIM).collect()).unwrap_or_default();
                        addrs.extend(lr.iter().map(|(_, r)| (*r) as *const i32 as usize));
                        addrs.extend(rr.iter().map(|(_, r)| (*r) as *const i32 as usize));
                    }
                    _ => {
                        let (l, r) = v.split();
                        match (l, r) {
                            (Some(mut l), Some(r)) => {
                                let items: Vec<(&P, Option<&mut i32>, Option<&mut i32>)> = l.union_mut(r).take(LIM).collect();
                                for (_, a, b) in items.iter() {
                                    if let Some(a) = a {
                                        addrs.push(&**a as *const i32 as usize);
                                    }
                                    if let Some(b) = b {
                                        addrs.push(&**b as *const i32 as usize);
                                    }
                                }
                            }
                            (Some(mut l), None) => {
                                addrs.extend(l.iter_mut().take(LIM).map(|(_, r)| r as *const i32 as usize));
                            }
                            (None, Some(mut r)) => {
                                addrs.extend(r.iter_mut().take(LIM).map(|(_, r)| r as *const i32 as usize));
                            }
                            (None, None) => {}
                        }
                    }
                }
                let n = addrs.len();
                addrs.sort();
                addrs.dedup();
                json!([{"distinct": (addrs.len() == n) as i32, "n": n}])
            })
        }
        "ViewSet" | "ViewRemove" | "ViewValueMut" | "ViewIterMut" => {
            let Some(map) = c.as_map() else { return None };
            let k = ev["k"].as_u64().unwrap_or(0) as usize;
            let how = ev["how"].as_str().unwrap_or("");
            guarded(|| {
                let Some(mut v) = map.view_mut_at(p()) else { return json!([]) };
                match a {
                    "ViewSet" => {
                        let x = ev["v"].as_i64().unwrap() as i32;
                        // C18: an entry created by set() on a value-less node keeps the prefix that node had
                        // (what the view reported as its prefix() before the call), an occupied node its stored one
                        let before = ctx.enc(v.prefix());
                        match v.set(x) {
                            Ok(old) => {
                                let after = ctx.enc(v.prefix());
                                if after != before {
                                    json!([{"ok": 1, "old": opt(old), "kept": 0, "before": before, "after": after}])
                                } else {
                                    json!([{"ok": 1, "old": opt(old)}])
                                }
                            }
                            Err(back) => json!([{"ok": 0, "old": [back]}]),
                        }
                    }
                    "ViewRemove" => json!([{"old": opt(v.remove())}]),
                    "ViewValueMut" => {
                        if how == "prefix_value_mut" {
                            match v.prefix_value_mut() {
                                Some((q, x)) => {
                                    let old = *x;
                                    *x = flip(old);
                                    json!([{"old": [{"p": ctx.enc(q), "v": old}]}])
                                }
                                None => json!([{"old": []}]),
                            }
                        } else {
                            let pfx = ctx.enc(v.prefix());
                            match v.value_mut() {
                                Some(x) => {
                                    let old = *x;
                                    *x = flip(old);
                                    json!([{"old": [{"p": pfx, "v": old}]}])
                                }
                                None => json!([{"old": []}]),
                            }
                        }
                    }
                    _ => match how {
                        "values_mut" => {
                            let keys: Vec<Value> = (&v).view().keys().take(LIM).map(|q| ctx.enc(q)).collect();
                            let mut refs: Vec<&mut i32> = v.values_mut().take(LIM).collect();
                            let out: Vec<Value> = refs
                                .iter()
                                .enumerate()
                                .map(|(j, x)| json!({"p": keys.get(j).cloned().unwrap_or(json!("EXTRA")), "v": **x}))
                                .collect();
                            for (j, x) in refs.iter_mut().enumerate() {
                                if k == 0 || k == j + 1 {
                                    **x = flip(**x);
                                }
                            }
                            json!([out])
                        }
                        "into_iter" => json!([write_through(ctx, v.into_iter(), k)]),
                        _ => json!([write_through(ctx, v.iter_mut(), k)]),
                    },
                }
            })
        }
        "Get" => guarded(|| opt(c.get(&p()))),
        "GetKV" => guarded(|| {
            let r = c.get_kv(&p());
            pv(ctx, r.as_ref().map(|(p, v)| (p, *v)))
        }),
        "Contains" => guarded(|| json!([c.contains(&p()) as i32])),
        "Lpm" => guarded(|| {
            if let Some(d) = c.variants_disagree(&p()) {
                return json!(["VARIANTS-DIFFER", d]);
            }
            let r = c.lpm(&p());
            pv(ctx, r.as_ref().map(|(p, v)| (p, *v)))
        }),
        "Spm" => guarded(|| {
            if let Some(d) = c.variants_disagree(&p()) {
                return json!(["VARIANTS-DIFFER", d]);
            }
            let r = c.spm(&p());
            pv(ctx, r.as_ref().map(|(p, v)| (p, *v)))
        }),
        "Cover" => guarded(|| {
            if let Some(d) = c.variants_disagree(&p()) {
                return json!(["VARIANTS-DIFFER", d]);
            }
            pvs(ctx, c.cover(&p(), 2).into_iter())
        }),
        "Children" => guarded(|| {
            if let Some(d) = c.variants_disagree(&p()) {
                return json!(["VARIANTS-DIFFER", d]);
            }
            pvs(ctx, c.children(&p()).into_iter())
        }),
        "Iter" => guarded(|| {
            if let Some(d) = c.iter_kinds_disagree() {
                return json!(["ITER-KINDS-DIFFER", d]);
            }
            pvs(ctx, c.entries().into_iter())
        }),
        "Len" => guarded(|| json!([c.len()])),
        "CloneCheck" => {
            // a key outside the table universes (4 bits long)
            let fresh: P = ctx.dec(&json!({"n": [1, 0, 1, 1], "h": "0"}));
            guarded(|| c.clone_check(&fresh))
        }
        "Collect" => guarded(|| c.collect_check(ctx)),
        "Misc" => guarded(|| c.misc_check(ctx)),
        "Serde" => {
            let r = guarded(|| c.serde_check().unwrap_or(json!(["NA"])));
            if r.ret == json!(["NA"]) {
                return None;
            }
            r
        }
        _ => return None,
    };
    Some(out)
}
