//! Conversion between the specification's vocabulary (network bits + host token) and the
//! concrete prefix types.  Written independently of the library's `Prefix` impls: values are
//! built with the types' own public constructors and read back with their own accessors, and
//! all shifting is done here on a left-aligned u128.

use cidr::{Ipv4Cidr, Ipv4Inet, Ipv6Cidr, Ipv6Inet};
use ipnet::{Ipv4Net, Ipv6Net};
use ipnetwork::{Ipv4Network, Ipv6Network};
use prefix_trie::Prefix;
use std::net::{Ipv4Addr, Ipv6Addr};

/// A prefix in specification form: network bits (most significant first) and the value of the
/// host part (the remaining `tw - n.len()` bits, as an integer).
#[derive(Clone, Debug, PartialEq, Eq, Hash, PartialOrd, Ord)]
pub struct SP {
    pub n: Vec<u8>,
    pub host: u128,
}

pub fn low_mask(bits: u32) -> u128 {
    if bits == 0 {
        0
    } else if bits >= 128 {
        u128::MAX
    } else {
        (1u128 << bits) - 1
    }
}

/// integer value (right-aligned in `tw` bits) of network bits + host value
pub fn to_addr(sp: &SP, tw: u32) -> u128 {
    let mut a: u128 = 0;
    for (i, b) in sp.n.iter().enumerate() {
        if *b != 0 {
            a |= 1u128 << (tw - 1 - i as u32);
        }
    }
    let hl = tw - sp.n.len() as u32;
    a | (sp.host & low_mask(hl))
}

pub fn from_addr(addr: u128, len: u32, tw: u32) -> SP {
    let mut n = Vec::with_capacity(len as usize);
    for i in 0..len {
        n.push(((addr >> (tw - 1 - i)) & 1) as u8);
    }
    SP {
        n,
        host: addr & low_mask(tw - len),
    }
}

/// host token of the specification: "0" all zero, "1" all ones, "2" only the first host bit,
/// otherwise "x<hex>".
pub fn host_tok(host: u128, hl: u32) -> String {
    if host == 0 {
        "0".into()
    } else if host == low_mask(hl) {
        "1".into()
    } else if hl >= 2 && host == 1u128 << (hl - 1) {
        "2".into()
    } else {
        format!("x{:x}", host)
    }
}

pub fn host_val(tok: &str, hl: u32) -> u128 {
    match tok {
        "0" => 0,
        "1" => low_mask(hl),
        "2" => {
            if hl == 0 {
                0
            } else {
                1u128 << (hl - 1)
            }
        }
        t if t.starts_with('x') => u128::from_str_radix(&t[1..], 16).unwrap() & low_mask(hl),
        t => panic!("bad host token {t}"),
    }
}

/// A concrete prefix type under test.
pub trait PT: Prefix + Clone + std::fmt::Debug + PartialEq + Send + Sync + 'static {
    const TW: u32;
    const NAME: &'static str;
    /// whether the type can represent host bits
    const HOSTS: bool;
    fn build(addr: u128, len: u8) -> Self;
    /// (address including host bits, length)
    fn parts(&self) -> (u128, u8);

    fn from_sp(sp: &SP) -> Self {
        Self::build(to_addr(sp, Self::TW), sp.n.len() as u8)
    }
    fn to_sp(&self) -> SP {
        let (a, l) = self.parts();
        from_addr(a, l as u32, Self::TW)
    }
}

macro_rules! tuple_pt {
    ($t:ty, $tw:expr, $name:expr) => {
        impl PT for ($t, u8) {
            const TW: u32 = $tw;
            const NAME: &'static str = $name;
            const HOSTS: bool = true;
            fn build(addr: u128, len: u8) -> Self {
                (addr as $t, len)
            }
            fn parts(&self) -> (u128, u8) {
                (self.0 as u128, self.1)
            }
        }
    };
}
tuple_pt!(u8, 8, "u8");
tuple_pt!(u16, 16, "u16");
tuple_pt!(u32, 32, "u32");
tuple_pt!(u64, 64, "u64");
tuple_pt!(u128, 128, "u128");
tuple_pt!(usize, 64, "usize");

impl PT for Ipv4Net {
    const TW: u32 = 32;
    const NAME: &'static str = "Ipv4Net";
    const HOSTS: bool = true;
    fn build(addr: u128, len: u8) -> Self {
        Ipv4Net::new(Ipv4Addr::from(addr as u32), len).unwrap()
    }
    fn parts(&self) -> (u128, u8) {
        (u32::from(self.addr()) as u128, self.prefix_len())
    }
}
impl PT for Ipv6Net {
    const TW: u32 = 128;
    const NAME: &'static str = "Ipv6Net";
    const HOSTS: bool = true;
    fn build(addr: u128, len: u8) -> Self {
        Ipv6Net::new(Ipv6Addr::from(addr), len).unwrap()
    }
    fn parts(&self) -> (u128, u8) {
        (u128::from(self.addr()), self.prefix_len())
    }
}
impl PT for Ipv4Network {
    const TW: u32 = 32;
    const NAME: &'static str = "Ipv4Network";
    const HOSTS: bool = true;
    fn build(addr: u128, len: u8) -> Self {
        Ipv4Network::new(Ipv4Addr::from(addr as u32), len).unwrap()
    }
    fn parts(&self) -> (u128, u8) {
        (u32::from(self.ip()) as u128, self.prefix())
    }
}
impl PT for Ipv6Network {
    const TW: u32 = 128;
    const NAME: &'static str = "Ipv6Network";
    const HOSTS: bool = true;
    fn build(addr: u128, len: u8) -> Self {
        Ipv6Network::new(Ipv6Addr::from(addr), len).unwrap()
    }
    fn parts(&self) -> (u128, u8) {
        (u128::from(self.ip()), self.prefix())
    }
}
impl PT for Ipv4Cidr {
    const TW: u32 = 32;
    const NAME: &'static str = "Ipv4Cidr";
    const HOSTS: bool = false;
    fn build(addr: u128, len: u8) -> Self {
        Ipv4Cidr::new(Ipv4Addr::from(addr as u32), len).unwrap()
    }
    fn parts(&self) -> (u128, u8) {
        (u32::from(self.first_address()) as u128, self.network_length())
    }
}
impl PT for Ipv6Cidr {
    const TW: u32 = 128;
    const NAME: &'static str = "Ipv6Cidr";
    const HOSTS: bool = false;
    fn build(addr: u128, len: u8) -> Self {
        Ipv6Cidr::new(Ipv6Addr::from(addr), len).unwrap()
    }
    fn parts(&self) -> (u128, u8) {
        (u128::from(self.first_address()), self.network_length())
    }
}
impl PT for Ipv4Inet {
    const TW: u32 = 32;
    const NAME: &'static str = "Ipv4Inet";
    const HOSTS: bool = true;
    fn build(addr: u128, len: u8) -> Self {
        Ipv4Inet::new(Ipv4Addr::from(addr as u32), len).unwrap()
    }
    fn parts(&self) -> (u128, u8) {
        (u32::from(self.address()) as u128, self.network_length())
    }
}
impl PT for Ipv6Inet {
    const TW: u32 = 128;
    const NAME: &'static str = "Ipv6Inet";
    const HOSTS: bool = true;
    fn build(addr: u128, len: u8) -> Self {
        Ipv6Inet::new(Ipv6Addr::from(addr), len).unwrap()
    }
    fn parts(&self) -> (u128, u8) {
        (u128::from(self.address()), self.network_length())
    }
}

/// A prefix type with a string serialisation ("<hex address>/<len>/<width>"), used to exercise the
/// crate's generic Serialize / Deserialize impls through serde_json (which needs string keys).
#[derive(Clone, Debug, PartialEq, Eq, Hash)]
pub struct StrPfx(pub u128, pub u8, pub u8);
impl StrPfx {
    pub fn of<P: PT>(p: &P) -> Self {
        let (a, l) = p.parts();
        StrPfx(a << (128 - P::TW), l, P::TW as u8)
    }
}
impl Prefix for StrPfx {
    type R = u128;
    fn repr(&self) -> u128 {
        self.0
    }
    fn prefix_len(&self) -> u8 {
        self.1
    }
    fn from_repr_len(repr: u128, len: u8) -> Self {
        StrPfx(repr, len, 128)
    }
}
impl serde::Serialize for StrPfx {
    fn serialize<S: serde::Serializer>(&self, s: S) -> Result<S::Ok, S::Error> {
        s.serialize_str(&format!("{:x}/{}/{}", self.0, self.1, self.2))
    }
}
impl<'de> serde::Deserialize<'de> for StrPfx {
    fn deserialize<D: serde::Deserializer<'de>>(d: D) -> Result<Self, D::Error> {
        let s = String::deserialize(d)?;
        let mut it = s.split('/');
        let a = u128::from_str_radix(it.next().unwrap_or("0"), 16).map_err(serde::de::Error::custom)?;
        let l: u8 = it.next().unwrap_or("0").parse().map_err(serde::de::Error::custom)?;
        let w: u8 = it.next().unwrap_or("128").parse().map_err(serde::de::Error::custom)?;
        Ok(StrPfx(a, l, w))
    }
}

pub const ALL_TYPES: [&str; 14] = [
    "u8",
    "u16",
    "u32",
    "u64",
    "u128",
    "usize",
    "Ipv4Net",
    "Ipv6Net",
    "Ipv4Network",
    "Ipv6Network",
    "Ipv4Cidr",
    "Ipv6Cidr",
    "Ipv4Inet",
    "Ipv6Inet",
];

/// Call a generic function with the concrete prefix type named by a string.
#[macro_export]
macro_rules! with_type {
    ($name:expr, $f:ident ( $($arg:expr),* )) => {
        match $name {
            "u8" => $f::<(u8, u8)>($($arg),*),
            "u16" => $f::<(u16, u8)>($($arg),*),
            "u32" => $f::<(u32, u8)>($($arg),*),
            "u64" => $f::<(u64, u8)>($($arg),*),
            "u128" => $f::<(u128, u8)>($($arg),*),
            "usize" => $f::<(usize, u8)>($($arg),*),
            "Ipv4Net" => $f::<ipnet::Ipv4Net>($($arg),*),
            "Ipv6Net" => $f::<ipnet::Ipv6Net>($($arg),*),
            "Ipv4Network" => $f::<ipnetwork::Ipv4Network>($($arg),*),
            "Ipv6Network" => $f::<ipnetwork::Ipv6Network>($($arg),*),
            "Ipv4Cidr" => $f::<cidr::Ipv4Cidr>($($arg),*),
            "Ipv6Cidr" => $f::<cidr::Ipv6Cidr>($($arg),*),
            "Ipv4Inet" => $f::<cidr::Ipv4Inet>($($arg),*),
            "Ipv6Inet" => $f::<cidr::Ipv6Inet>($($arg),*),
            other => panic!("unknown prefix type {other}"),
        }
    };
}

#[cfg(test)]
mod test {
    use super::*;
    fn roundtrip<P: PT>() {
        let tw = P::TW;
        for len in [0u32, 1, 2, tw / 2, tw - 1, tw] {
            for pat in [0u128, u128::MAX, 0xaaaa_aaaa_aaaa_aaaa_aaaa_aaaa_aaaa_aaaa] {
                let addr = pat & low_mask(tw);
                let addr = if P::HOSTS {
                    addr
                } else {
                    addr & !low_mask(tw - len)
                };
                let sp = from_addr(addr, len, tw);
                assert_eq!(to_addr(&sp, tw), addr);
                let p = P::from_sp(&sp);
                assert_eq!(p.to_sp(), sp, "{} {addr:x}/{len}", P::NAME);
            }
        }
    }
    #[test]
    fn all_roundtrip() {
        roundtrip::<(u8, u8)>();
        roundtrip::<(u16, u8)>();
        roundtrip::<(u32, u8)>();
        roundtrip::<(u64, u8)>();
        roundtrip::<(u128, u8)>();
        roundtrip::<(usize, u8)>();
        roundtrip::<Ipv4Net>();
        roundtrip::<Ipv6Net>();
        roundtrip::<Ipv4Network>();
        roundtrip::<Ipv6Network>();
        roundtrip::<Ipv4Cidr>();
        roundtrip::<Ipv6Cidr>();
        roundtrip::<Ipv4Inet>();
        roundtrip::<Ipv6Inet>();
    }
    #[test]
    fn tokens() {
        assert_eq!(host_tok(0, 5), "0");
        assert_eq!(host_tok(31, 5), "1");
        assert_eq!(host_tok(16, 5), "2");
        assert_eq!(host_tok(3, 5), "x3");
        for hl in 0..10 {
            for t in ["0", "1", "2"] {
                let v = host_val(t, hl);
                assert_eq!(host_val(&host_tok(v, hl), hl), v);
            }
        }
    }
}
