//! Binding 1: replay TLC-generated transition rows on the real code.
//!
//! A row is {h: path of mutator events from the empty map, e: event, r: expected result,
//! pn: expected panic flag, t: expected tree afterwards, x: [arena len, |free|, count] afterwards,
//! f / fx: the same for the state before the event, cn: shape must be canonical}.

use crate::codec::*;
use crate::model::*;
use serde_json::{json, Value};
use std::collections::HashMap;
use std::io::BufRead;

#[derive(Default)]
pub struct Report {
    pub rows: u64,
    pub executed: u64,
    pub skipped_host: u64,
    pub skipped_unsupported: u64,
    pub pre_failed: u64,
    pub kf_f7_rows: u64,
    pub per_kind: HashMap<String, u64>,
    pub per_kind_hostfree: HashMap<String, u64>,
    pub side_obs: u64,
    pub drift_rows: u64,
    pub no_state_row: u64,
    pub states: u64,
    pub per_action: HashMap<String, u64>,
    pub mismatches: Vec<Value>,
    pub mismatch_count: u64,
    pub samples: Vec<Value>,
}

fn nonzero_host(v: &Value) -> bool {
    match v {
        Value::Object(o) => {
            if let (Some(_), Some(h)) = (o.get("n"), o.get("h")) {
                if h.as_str() != Some("0") {
                    return true;
                }
            }
            o.values().any(nonzero_host)
        }
        Value::Array(a) => a.iter().any(nonzero_host),
        _ => false,
    }
}
pub fn nonzero_host_pub(v: &Value) -> bool {
    nonzero_host(v)
}
fn tree_nonzero_host(t: &Value) -> bool {
    let a = t.as_array().unwrap();
    if a.is_empty() {
        return false;
    }
    a[1].as_str() != Some("0") || tree_nonzero_host(&a[3]) || tree_nonzero_host(&a[4])
}

/// strip values from a canonical tree: the shape
pub fn shape(t: &Value) -> Value {
    let a = t.as_array().unwrap();
    if a.is_empty() || a[0].as_str() == Some("DEPTH") {
        return t.clone();
    }
    json!([a[0], shape(&a[3]), shape(&a[4])])
}
/// the entries of a canonical tree, in pre-order: [n, h, v]
pub fn tree_entries(t: &Value, out: &mut Vec<Value>) {
    let a = t.as_array().unwrap();
    if a.is_empty() || a.len() < 5 {
        return;
    }
    if a[2].as_i64() != Some(-1) {
        out.push(json!([a[0], a[1], a[2]]));
    }
    tree_entries(&a[3], out);
    tree_entries(&a[4], out);
}

/// the accounting <<slots, free, counter>> of the code against the specification's (see compare())
pub fn acct_ok(got: &Value, exp: &Value, dr: i64) -> bool {
    let g = |v: &Value, i: usize| v[i].as_i64().unwrap_or(-1);
    g(got, 0) <= g(exp, 0)
        && (g(got, 0) != g(exp, 0) || g(got, 1) == g(exp, 1))
        && (g(got, 2) == g(exp, 2) || g(got, 2) == g(exp, 2) - dr)
}

/// Is the outcome of a retain whose predicate panicked the one C20 demands for the calls the code made?
/// `calls`: the prefixes the predicate saw (the last one is the call that panicked).
fn retain_panic_order_free(row: &Value, calls: &Value, exp_calls: &Value, pre_tree: &Value, post_tree: &Value) -> bool {
    let (Some(calls), Some(exp_calls), Some(keep)) = (calls.as_array(), exp_calls.as_array(), row["e"]["keep"].as_array()) else {
        return false;
    };
    if calls.len() != exp_calls.len() || calls.is_empty() {
        return false; // the panic is injected at the k-th call
    }
    let (mut pre, mut post) = (vec![], vec![]);
    tree_entries(pre_tree, &mut pre);
    tree_entries(post_tree, &mut post);
    // every call shows a distinct stored entry in its stored representation
    for (i, c) in calls.iter().enumerate() {
        if !pre.iter().any(|e| e[0] == c["n"] && e[1] == c["h"]) || calls[..i].iter().any(|d| d["n"] == c["n"]) {
            return false;
        }
    }
    let before = &calls[..calls.len() - 1];
    let want: Vec<Value> = pre
        .into_iter()
        .filter(|e| !(before.iter().any(|c| c["n"] == e[0]) && !keep.iter().any(|k| *k == e[0])))
        .collect();
    want == post
}

/// C15 on an observed tree: every child strictly longer than, covered by, and on the side selected by the
/// next bit of its parent; the root is the zero-length prefix
pub fn tree_wf(t: &Value) -> Option<String> {
    fn bits(v: &Value) -> Vec<u64> {
        v.as_array().map(|a| a.iter().map(|b| b.as_u64().unwrap_or(9)).collect()).unwrap_or_default()
    }
    fn go(t: &Value, depth: usize) -> Option<String> {
        let a = t.as_array()?;
        if a.is_empty() {
            return None;
        }
        if a.len() < 5 {
            return Some("the trie is deeper than width + 1 or has more nodes than slots (cycle / shared node)".into());
        }
        let pn = bits(&a[0]);
        for (side, c) in [(0u64, &a[3]), (1u64, &a[4])] {
            let ca = c.as_array()?;
            if ca.is_empty() {
                continue;
            }
            if ca.len() < 5 {
                return Some("the trie is deeper than width + 1 or has more nodes than slots (cycle / shared node)".into());
            }
            let cn = bits(&ca[0]);
            if cn.len() <= pn.len() {
                return Some(format!("child {:?} is not longer than its parent {:?}", cn, pn));
            }
            if cn[..pn.len()] != pn[..] {
                return Some(format!("child {:?} is not covered by its parent {:?}", cn, pn));
            }
            if cn[pn.len()] != side {
                return Some(format!("child {:?} hangs on the wrong side of {:?}", cn, pn));
            }
            if let Some(e) = go(c, depth + 1) {
                return Some(e);
            }
        }
        None
    }
    let a = t.as_array()?;
    if a.len() >= 5 && !bits(&a[0]).is_empty() {
        return Some("the root is not the zero-length prefix".into());
    }
    go(t, 0)
}

pub struct Step {
    pub reach: usize,
    pub ret: Value,
    pub pan: bool,
    pub tree: Value,
    pub acct: Value,
    pub len: usize,
    pub is_empty: bool,
    pub iter_count: usize,
    pub partition: Option<String>,
}

pub fn observe<P: PT, C: Coll<P>>(c: &C, ctx: &Ctx, o: Outcome) -> Step {
    let s = c.snap();
    Step {
        reach: s.table_len.saturating_sub(s.free.len()),
        ret: o.ret,
        pan: o.pan,
        tree: c.tree(ctx),
        acct: acct(&s),
        len: c.len(),
        is_empty: c.is_empty(),
        iter_count: c.entries().len(),
        partition: partition_violation(&s),
    }
}

/// Compare one executed step with the row; push one mismatch record per differing facet.
pub fn compare(row: &Value, ctx: &Ctx, st: &Step, is_set: bool, dr: i64, pre_tree: &Value, pre_alen: u64) -> Vec<(String, Value, Value)> {
    let mut mm = vec![];
    let mut exp_ret = ctx.norm(&row["r"]);
    let exp_pan = row["pn"].as_bool().unwrap_or(false);
    let mut got_ret = st.ret.clone();
    let act = row["e"]["a"].as_str().unwrap_or("");
    if act == "Retain" && !exp_pan {
        // the property fixes which entries the predicate sees (each once), not the order of the calls
        let sort = |v: &Value| -> Value {
            let mut a: Vec<String> = v.as_array().map(|x| x.iter().map(|y| y.to_string()).collect()).unwrap_or_default();
            a.sort();
            json!(a)
        };
        exp_ret = sort(&exp_ret);
        got_ret = sort(&got_ret);
    }
    let qlen = row["e"]["q"]["n"].as_array().map(|a| a.len());
    let plen = row["e"]["p"]["n"].as_array().map(|a| a.len());
    if act == "Find" && row["e"]["kind"] == "find" && qlen < plen {
        // find(q) for a q ABOVE the view's own position must address the right entries; at which position it
        // reports itself is left open.  For q at or below the view's position it is view_at(q) (C11: prefix()
        // is q, value() the value stored at q, sides split by the next bit) and is compared in full.
        let proj = |v: &Value| -> Value {
            match v.get(0) {
                Some(x) if x.is_object() => json!([{"ok": x["ok"], "it": x["d"]["it"]}]),
                _ => v.clone(),
            }
        };
        exp_ret = proj(&exp_ret);
        got_ret = proj(&got_ret);
    }
    // C20 fixes what a retain whose predicate panicked leaves behind relative to the calls that preceded the
    // panic ("minus those the predicate had already rejected"), not the order of those calls: where the code
    // asked in another order than the specification's machine, the outcome is judged on the observed calls.
    let order_free = act == "Retain" && exp_pan && st.pan && got_ret != exp_ret
        && retain_panic_order_free(row, &got_ret, &exp_ret, pre_tree, &st.tree);
    if act == "Len" && dr != 0 && !exp_pan {
        // finding F4 explains a counter that is off by `dr`; a len() that reports the true number of entries
        // (the finding repaired, or len() not derived from the counter) is what C04 demands
        if let Some(e) = exp_ret.get(0).and_then(|x| x.as_i64()) {
            if got_ret == json!([e - dr]) {
                exp_ret = got_ret.clone();
            }
        }
    }
    let st_ret = &got_ret;
    if order_free {
    } else if st.pan != exp_pan {
        mm.push(("pan".into(), json!(exp_pan), json!(st.pan)));
    } else if !exp_pan && *st_ret != exp_ret {
        mm.push(("ret".into(), exp_ret, st_ret.clone()));
    } else if exp_pan && row["e"]["a"] == "Retain" && *st_ret != exp_ret {
        mm.push(("ret".into(), exp_ret, st_ret.clone()));
    }
    let exp_tree = ctx.norm_tree(&row["t"]);
    if st.tree != exp_tree && !order_free {
        let (mut ee, mut eg) = (vec![], vec![]);
        tree_entries(&exp_tree, &mut ee);
        tree_entries(&st.tree, &mut eg);
        if ee != eg {
            mm.push(("entries".into(), json!(ee), json!(eg)));
        }
        if shape(&exp_tree) != shape(&st.tree) {
            mm.push(("shape".into(), shape(&exp_tree), shape(&st.tree)));
        } else if ee == eg {
            // only host tokens / values of value-less nodes differ
            mm.push(("tree".into(), exp_tree.clone(), st.tree.clone()));
        }
    }
    // C15, on the code's own observations: well-formedness, and no shape change where the event is value-only
    if let Some(d) = tree_wf(&st.tree) {
        mm.push(("wf".into(), json!("well-formed trie"), json!(d)));
    }
    let from_tree = ctx.norm_tree(&row["f"]);
    // (`keeps`: the event is one of those C15 says never change the shape - remove_keep_tree, value-only
    // operations through entries and views, observers.  A remove()/retain() that tidies left-over nodes of an
    // earlier remove_keep_tree while removing nothing is NOT such an event: any well-formed shape is legal there.)
    let keeps = row["keeps"].as_bool().unwrap_or(false);
    if keeps && shape(&exp_tree) == shape(&from_tree) && shape(&st.tree) != shape(pre_tree) {
        mm.push(("shape_changed".into(), shape(pre_tree), shape(&st.tree)));
    }
    let x = &row["x"];
    // the accounting is a function of the shape: compared only where the shape is the expected one
    let same_shape = shape(&exp_tree) == shape(&st.tree);
    // C16 bounds the storage by the largest number of nodes ever needed at one time, which is exactly the
    // specification's arena length: the code may hold fewer slots (it may give trailing free slots back), never
    // more.  With equal lengths and equal shape the number of free slots is determined.
    if same_shape && st.acct[0].as_u64() > x[0].as_u64() {
        mm.push(("alen".into(), x[0].clone(), st.acct[0].clone()));
    }
    if same_shape && st.acct[0] == x[0] && st.acct[1] != x[1] {
        mm.push(("nfree".into(), x[1].clone(), st.acct[1].clone()));
    }
    // C16, on the code's own observations: the arena grows only when no slot is free (clear excepted)
    let cleared = x[0].as_u64().unwrap_or(0) < row["fx"][0].as_u64().unwrap_or(0);
    if st.partition.is_none() && !cleared {
        let alen = st.acct[0].as_u64().unwrap_or(0);
        let want = pre_alen.max(st.reach as u64);
        if alen > want {
            mm.push(("grow".into(), json!(want), json!(alen)));
        }
    }
    // the counter is judged against the specification only where the contents are the expected ones
    // (otherwise len() vs iteration, below, is the criterion)
    let (mut ee2, mut eg2) = (vec![], vec![]);
    tree_entries(&exp_tree, &mut ee2);
    tree_entries(&st.tree, &mut eg2);
    // (the specification's counter drifts by `dr` as finding F4 explains; the true number of entries is right too)
    let true_count = json!(x[2].as_i64().unwrap_or(0) - dr);
    if ee2.len() == eg2.len() && st.acct[2] != x[2] && st.acct[2] != true_count {
        mm.push(("count".into(), x[2].clone(), st.acct[2].clone()));
    }
    // observation-relative facets, independent of the table
    // `dr` is the drift the specification attributes to the listed finding F4 (0 otherwise)
    // (the true number of entries is always right; the drifted value only as the listed finding explains it)
    let exp_len = if st.len as i64 == st.iter_count as i64 { st.iter_count as i64 } else { st.iter_count as i64 + dr };
    if st.len as i64 != exp_len || st.is_empty != (exp_len == 0) {
        mm.push((
            "len_vs_iter".into(),
            json!([exp_len, exp_len == 0]),
            json!([st.len, st.is_empty]),
        ));
    }
    if let Some(d) = &st.partition {
        mm.push(("partition".into(), json!("partition"), json!(d)));
    }
    let _ = is_set;
    mm
}

pub fn parse_row(line: &str) -> Option<Value> {
    let line = line.trim();
    if line.starts_with('"') {
        let inner: String = serde_json::from_str(line).ok()?;
        serde_json::from_str(&inner).ok()
    } else if line.starts_with('{') {
        serde_json::from_str(line).ok()
    } else {
        None
    }
}

/// None = the path contains an event this kind of collection does not have
fn build_state<P: PT, C: Coll<P>>(h: &Value, ctx: &Ctx) -> Option<C> {
    let mut c = C::default();
    for e in h.as_array().unwrap() {
        apply::<P, C>(&mut c, e, ctx)?;
    }
    Some(c)
}

pub fn replay_rows<P: PT, C: Coll<P>>(
    input: &mut dyn BufRead,
    ctx: &Ctx,
    max_mismatch: usize,
    rep: &mut Report,
    mut side: Option<&mut dyn std::io::Write>,
) {
    // the key universe of the tables: all bit strings up to 3 bits (covers U2 and the base-1 boundary universe)
    let mut universe: Vec<Vec<u8>> = vec![vec![]];
    for len in 1..=3u32 {
        for x in 0..(1u32 << len) {
            universe.push((0..len).map(|i| ((x >> (len - 1 - i)) & 1) as u8).collect());
        }
    }
    let mut cache: HashMap<String, Option<C>> = HashMap::new();
    let mut unsupported_paths: std::collections::HashSet<String> = Default::default();
    // state rows: path -> (tree, accounting) the path must produce
    let mut pre: HashMap<String, (Value, Value, i64, bool)> = HashMap::new();
    let mut line = String::new();
    loop {
        // the watchdog times the calls of the code under test and the observation of their results only, not
        // the harness's own reading, parsing and bookkeeping between two rows
        crate::model::watch_end();
        line.clear();
        if input.read_line(&mut line).unwrap() == 0 {
            break;
        }
        let Some(mut row) = parse_row(&line) else { continue };
        if let Some(s) = row.get("s") {
            // memory guard for very large tables: beyond this many pending states new ones are not
            // remembered (their rows are skipped and counted in no_state_row)
            if pre.len() > 1_500_000 {
                continue;
            }
            pre.insert(
                serde_json::to_string(s).unwrap(),
                (row["f"].clone(), row["fx"].clone(), row["dr"].as_i64().unwrap_or(0), row["cn"].as_bool().unwrap_or(false)),
            );
            continue;
        }
        if row.get("e").is_none() {
            continue;
        }
        rep.rows += 1;
        let key = serde_json::to_string(&row["h"]).unwrap();
        let Some((f, fx, dr0, cn0)) = pre.get(&key) else {
            rep.no_state_row += 1;
            continue;
        };
        if row.get("t").is_none() {
            // observers leave the state unchanged
            row["t"] = f.clone();
            row["x"] = fx.clone();
        }
        if !P::HOSTS && (nonzero_host(&row["h"]) || nonzero_host(&row["e"]) || tree_nonzero_host(f)) {
            rep.skipped_host += 1;
            continue;
        }
        if !cache.contains_key(&key) {
            // rows arrive grouped by state: a small window of rebuilt states is enough
            if cache.len() > 2048 {
                cache.clear();
            }
            let Some(c) = build_state::<P, C>(&row["h"], ctx) else {
                cache.insert(key.clone(), None);
                unsupported_paths.insert(key.clone());
                rep.skipped_unsupported += 1;
                continue;
            };
            // precondition: the replayed path really produced the state the row starts from
            // (accounting as C16 / C04 demand it: no more slots than the history ever needed; the counter as the
            // specification has it, or the true number of entries where the listed drift is not present)
            let ok = c.tree(ctx) == ctx.norm_tree(f) && acct_ok(&acct(&c.snap()), fx, *dr0);
            rep.states += 1;
            if !ok {
                rep.mismatch_count += 1;
                if rep.mismatches.len() < max_mismatch {
                    rep.mismatches.push(json!({"kind": "pre", "h": row["h"], "e": {"a": "PathReplay"}, "row": {"cn": cn0, "dr": dr0},
                        "expected": {"t": ctx.norm_tree(f), "x": fx},
                        "got": {"t": c.tree(ctx), "x": acct(&c.snap())}}));
                }
            }
            if !ok {
                // the observation-relative facets of the state that was actually reached (C15, C16)
                let last = row["h"].as_array().and_then(|h| h.last()).cloned().unwrap_or(json!({"a": "PathReplay"}));
                if let Some(d) = tree_wf(&c.tree(ctx)) {
                    rep.mismatch_count += 1;
                    let n = rep.per_kind.entry("wf/path".into()).or_default();
                    *n += 1;
                    if *n <= 4 {
                        rep.mismatches.push(json!({"kind": "wf", "h": row["h"], "e": last, "expected": "well-formed trie", "got": d}));
                    }
                }
                if let Some(d) = partition_violation(&c.snap()) {
                    rep.mismatch_count += 1;
                    let n = rep.per_kind.entry("partition/path".into()).or_default();
                    *n += 1;
                    if *n <= 4 {
                        rep.mismatches.push(json!({"kind": "partition", "h": row["h"], "e": last, "expected": "partition", "got": d}));
                    }
                }
                if let Some(side) = side.as_mut() {
                    // the contents the path should have produced, for the state-relative facets
                    let mut ee = vec![];
                    tree_entries(&ctx.norm_tree(f), &mut ee);
                    let exp_e: Vec<Value> = ee.iter().map(|x| json!({"n": x[0], "h": x[1], "v": x[2]})).collect();
                    // the exact-match sweep must reach every key the state holds or should hold (explicit-key
                    // universes go deeper than the 3-bit default)
                    let mut uni2 = universe.clone();
                    let mut real_e = vec![];
                    tree_entries(&c.tree(ctx), &mut real_e);
                    for x in ee.iter().chain(real_e.iter()) {
                        let bits = Ctx::bits(&x[0]);
                        for l in 0..=bits.len() {
                            let k = bits[..l].to_vec();
                            if !uni2.contains(&k) && uni2.len() < 96 {
                                uni2.push(k);
                            }
                        }
                    }
                    if let Some(l) = c.obs_line(ctx, &uni2) {
                        let mut v: Value = serde_json::from_str(&l).unwrap();
                        v["expE"] = Value::Array(exp_e);
                        writeln!(side, "{}", serde_json::to_string(&v).unwrap()).unwrap();
                    }
                    rep.side_obs += 1;
                }
            }
            cache.insert(key.clone(), if ok { Some(c) } else { None });
        }
        let Some(c0) = cache.get(&key).unwrap() else {
            if unsupported_paths.contains(&key) {
                rep.skipped_unsupported += 1;
            } else {
                rep.pre_failed += 1;
            }
            continue;
        };
        let mut c = c0.clone();
        if c.snap() != c0.snap() {
            // clone() owes an equal, independent map (C19), not the same arena layout: where it differs, the
            // state is rebuilt from its path so that the accounting facets are judged on what the path produced
            match build_state::<P, C>(&row["h"], ctx) {
                Some(x) => c = x,
                None => {
                    rep.skipped_unsupported += 1;
                    continue;
                }
            }
        }
        let Some(o) = apply::<P, C>(&mut c, &row["e"], ctx) else {
            rep.skipped_unsupported += 1;
            continue;
        };
        rep.executed += 1;
        *rep.per_action.entry(row["e"]["a"].as_str().unwrap().to_string()).or_default() += 1;
        let st = observe::<P, C>(&c, ctx, o);
        // finding F7: a call on an OccupiedEntry after its remove()
        if row["e"]["a"] == "Entry" {
            if let Some(ops) = row["e"]["ops"].as_array() {
                if ops.len() >= 2 && ops[0]["o"] == "o_remove" && st.pan {
                    rep.kf_f7_rows += 1;
                }
            }
        }
        let dr = row.get("dr").and_then(|d| d.as_i64()).unwrap_or(*dr0);
        if dr != 0 && st.len as i64 != st.iter_count as i64 {
            // the listed finding F4 manifests on this row
            rep.drift_rows += 1;
        }
        if row.get("f").is_none() {
            row["f"] = f.clone();
            row["fx"] = fx.clone();
        }
        let pre_tree = c0.tree(ctx);
        let pre_alen = c0.snap().table_len as u64;
        let mm = compare(&row, ctx, &st, C::IS_SET, dr, &pre_tree, pre_alen);
        if rep.samples.len() < 3 && rep.executed % 4999 == 2500 {
            rep.samples.push(json!({"h": row["h"], "e": row["e"], "r": st.ret, "t": st.tree, "x": st.acct}));
        }
        for (kind, exp, got) in mm {
            rep.mismatch_count += 1;
            // keep the first few of every (kind, action): one property's disagreements must not crowd
            // out another's
            let slot = format!("{}/{}", kind, row["e"]["a"].as_str().unwrap_or("?"));
            if !(nonzero_host(&row["h"]) || nonzero_host(&row["e"])) {
                *rep.per_kind_hostfree.entry(slot.clone()).or_default() += 1;
            }
            let n = rep.per_kind.entry(slot).or_default();
            *n += 1;
            if *n <= 4 && rep.mismatches.len() < max_mismatch * 8 {
                rep.mismatches.push(json!({"kind": kind, "h": row["h"], "e": row["e"], "expected": exp, "got": got,
                    "row": {"r": row["r"], "pn": row["pn"], "t": row["t"], "x": row["x"], "f": f, "fx": fx, "cn": row.get("cn")}}));
            }
        }
    }
}

pub fn report_json(rep: &Report, ptype: &str, coll: &str) -> Value {
    json!({
        "ptype": ptype, "coll": coll,
        "rows": rep.rows, "executed": rep.executed, "skipped_host": rep.skipped_host,
        "skipped_unsupported": rep.skipped_unsupported, "pre_failed": rep.pre_failed, "kf_f7_rows": rep.kf_f7_rows, "side_obs": rep.side_obs, "per_kind": rep.per_kind, "per_kind_hostfree": rep.per_kind_hostfree, "drift_rows": rep.drift_rows, "no_state_row": rep.no_state_row,
        "states": rep.states, "per_action": rep.per_action,
        "mismatch_count": rep.mismatch_count, "mismatches": rep.mismatches, "samples": rep.samples,
    })
}
