//! Binding 2: random histories on the real collections at their real width, logged as NDJSON
//! for validation by TLC against spec/TraceV.tla.

use crate::codec::*;
use crate::model::*;
use crate::pairs::PairOps;
use prefix_trie::*;
use rand::rngs::StdRng;
use rand::{Rng, SeedableRng};
use serde_json::{json, Value};
use std::io::Write;

pub struct Profile {
    pub mutators: bool,
    pub entry: bool,
    pub writes: bool,
    pub views: bool,
    pub view_mut: bool, // TrieViewMut::set / remove (finding F4: the run ends after a drift)
    pub pairs: bool,
    pub retain_panic: bool,
    pub obs_every: usize,
    pub tree_every: usize,
    /// log only the observation-relative lines (after every call); the calls themselves are the
    /// same as without this flag for the same seed
    pub obs_only: bool,
    /// run every set-compatible call on a PrefixSet as well and require the same outcome as on the map
    pub with_set: bool,
    /// working set = a complete chain of nested prefixes down to full width (every length occupied)
    pub chain: bool,
}

impl Profile {
    pub fn named(name: &str) -> Profile {
        let base = Profile {
            mutators: true,
            entry: true,
            writes: true,
            views: true,
            view_mut: false,
            pairs: false,
            retain_panic: false,
            obs_every: 25,
            tree_every: 1,
            obs_only: false,
            with_set: false,
            chain: false,
        };
        let (name, obs_only) = match name.strip_suffix("+obs") {
            Some(n) => (n, true),
            None => (name, false),
        };
        let base = Profile { obs_only, ..base };
        match name {
            "core" => Profile { entry: false, writes: false, views: false, ..base },
            "chain" => Profile { chain: true, obs_every: 40, ..base },
            "set" => Profile { entry: false, writes: false, views: false, with_set: true, ..base },
            "pairs" => Profile { pairs: true, entry: false, writes: false, views: false, obs_every: 60, ..base },
            "viewmut" => Profile { view_mut: true, ..base },
            "faults" => Profile { retain_panic: true, ..base },
            _ => base,
        }
    }
}

fn rand_bits(rng: &mut StdRng, n: usize) -> Vec<u8> {
    (0..n).map(|_| rng.gen_range(0..2u8)).collect()
}

/// every prefix of one full-width address from some length on (a complete chain: every length on the path
/// is a node), plus the siblings of the last few; exercises walks of maximal depth
pub fn chain_set(rng: &mut StdRng, tw: usize) -> Vec<Vec<u8>> {
    let addr = rand_bits(rng, tw);
    let from = if tw <= 16 { 0 } else { tw - 12 };
    let mut ks: Vec<Vec<u8>> = vec![vec![]];
    for l in from..=tw {
        ks.push(addr[..l].to_vec());
    }
    for l in (tw.saturating_sub(3).max(1))..=tw {
        let mut s = addr[..l].to_vec();
        s[l - 1] ^= 1;
        ks.push(s);
    }
    if from > 0 {
        ks.push(addr[..from / 2].to_vec());
    }
    ks.sort();
    ks.dedup();
    ks
}

/// a clustered working set of keys (network bits) for width `tw`
pub fn working_set(rng: &mut StdRng, tw: usize) -> Vec<Vec<u8>> {
    let mut ks: Vec<Vec<u8>> = vec![vec![]];
    let bl = match rng.gen_range(0..4) {
        0 => 0,
        1 => tw - 5,                       // cluster at the full-width boundary
        2 => rng.gen_range(0..=tw - 5),
        _ => rng.gen_range(0..=(tw - 5).min(10)),
    };
    let base = rand_bits(rng, bl);
    ks.push(base.clone());
    for ext in [vec![0u8], vec![1], vec![0, 0], vec![0, 1], vec![1, 0], vec![1, 1, 0], vec![0, 1, 0, 1], vec![0, 1, 0, 0], vec![1, 1, 1, 1, 1]] {
        let mut k = base.clone();
        k.extend(ext);
        if k.len() <= tw {
            ks.push(k);
        }
    }
    // a chain down to full width and its sibling
    let mut leaf = base.clone();
    leaf.push(0);
    while leaf.len() < tw {
        leaf.push(rng.gen_range(0..2));
    }
    ks.push(leaf.clone());
    let mut sib = leaf.clone();
    let last = sib.len() - 1;
    sib[last] ^= 1;
    ks.push(sib);
    let mut par = leaf.clone();
    par.pop();
    ks.push(par);
    // a second cluster that diverges early
    if bl >= 2 {
        let mut b2 = base[..rng.gen_range(1..bl)].to_vec();
        let i = b2.len() - 1;
        b2[i] ^= 1;
        ks.push(b2.clone());
        b2.push(1);
        ks.push(b2);
    } else {
        ks.push(rand_bits(rng, 4.min(tw)));
    }
    ks.sort();
    ks.dedup();
    ks
}

pub fn neighbours(ks: &[Vec<u8>], tw: usize, rng: &mut StdRng) -> Vec<Vec<u8>> {
    let mut qs: Vec<Vec<u8>> = ks.to_vec();
    for k in ks {
        if !k.is_empty() {
            let mut p = k.clone();
            p.pop();
            qs.push(p);
            let mut s = k.clone();
            let i = s.len() - 1;
            s[i] ^= 1;
            qs.push(s);
        }
        if k.len() < tw {
            let mut c = k.clone();
            c.push(rng.gen_range(0..2));
            qs.push(c);
        }
    }
    let rl = rng.gen_range(0..=tw.min(12));
    qs.push(rand_bits(rng, rl));
    qs.sort();
    qs.dedup();
    qs
}

struct Gen<'a> {
    rng: &'a mut StdRng,
    tw: usize,
    keys: Vec<Vec<u8>>,
    queries: Vec<Vec<u8>>,
    hosts: bool,
}

impl Gen<'_> {
    fn host_tok(&mut self, n: &[u8]) -> String {
        let hl = (self.tw - n.len()) as u32;
        if !self.hosts || hl == 0 {
            return "0".into();
        }
        let v = match self.rng.gen_range(0..6) {
            0 | 1 | 2 => 0,
            3 => low_mask(hl),
            4 => 1u128 << (hl - 1),
            _ => self.rng.gen::<u128>() & low_mask(hl),
        };
        host_tok(v, hl)
    }
    fn pfx_of(&mut self, n: Vec<u8>) -> Value {
        let h = self.host_tok(&n);
        json!({"n": n, "h": h})
    }
    fn key(&mut self) -> Value {
        let i = self.rng.gen_range(0..self.keys.len());
        let n = self.keys[i].clone();
        self.pfx_of(n)
    }
    fn query(&mut self) -> Value {
        let i = self.rng.gen_range(0..self.queries.len());
        let n = self.queries[i].clone();
        self.pfx_of(n)
    }
    fn val(&mut self) -> i32 {
        self.rng.gen_range(1..=9)
    }
}

fn entry_ops(g: &mut Gen, occupied: bool) -> Vec<Value> {
    // up to 3 calls; ends with the first consuming one; nothing after o_remove
    let non_consuming_e = ["get", "get_mut", "key", "and_modify"];
    let consuming_e = ["insert", "or_insert", "or_insert_with", "or_default"];
    let mut ops = vec![];
    let n = g.rng.gen_range(1..=3);
    for i in 0..n {
        let last = i == n - 1;
        let (o, consuming): (&str, bool) = if last && g.rng.gen_bool(0.8) {
            if occupied && g.rng.gen_bool(0.4) {
                (["o_insert", "o_remove"][g.rng.gen_range(0..2)], true)
            } else if !occupied && g.rng.gen_bool(0.4) {
                (["v_insert", "v_insert_with", "v_default"][g.rng.gen_range(0..3)], true)
            } else {
                (consuming_e[g.rng.gen_range(0..4)], true)
            }
        } else if occupied && g.rng.gen_bool(0.3) {
            (["o_key", "o_get", "o_get_mut"][g.rng.gen_range(0..3)], false)
        } else if !occupied && g.rng.gen_bool(0.15) {
            ("v_key", false)
        } else {
            (non_consuming_e[g.rng.gen_range(0..4)], false)
        };
        let v: i64 = match o {
            "get" | "key" | "or_default" | "o_key" | "o_get" | "o_remove" | "v_key" | "v_default" => -1,
            "and_modify" | "or_insert_with" | "v_insert_with" if g.rng.gen_bool(0.1) => PANIC_ARG,
            _ => g.val() as i64,
        };
        ops.push(json!({"o": o, "v": v}));
        if consuming {
            break;
        }
    }
    ops
}

fn log_line(out: &mut dyn Write, ev: &Value, o: &Outcome, snap: Option<Value>, tree: Option<Value>) {
    let mut line = ev.clone();
    line["ret"] = o.ret.clone();
    line["pan"] = json!(o.pan);
    if let Some(x) = snap {
        line["x"] = x;
    }
    if let Some(t) = tree {
        line["t"] = t;
    }
    writeln!(out, "{}", serde_json::to_string(&line).unwrap()).unwrap();
}

/// An observation-relative line: E = the contents found by an exact-match sweep over `universe`
/// (get_key_value), iter = what iteration yields; every other observer is judged against E.
pub fn obs_event_over<P: PT>(
    ctx: &Ctx,
    m: &PrefixMap<P, i32>,
    universe: &[Vec<u8>],
    queries: &[Value],
) -> Value {
    let es: Vec<(P, i32)> = Coll::<P>::entries(m);
    let mut e_json: Vec<Value> = vec![];
    for n in universe {
        let q: P = ctx.dec(&json!({"n": ctx.enc_n(n), "h": "0"}));
        if let Some((p, v)) = m.get_key_value(&q) {
            let j = ctx.enc(p);
            e_json.push(json!({"n": j["n"], "h": j["h"], "v": v}));
        }
    }
    let iter_json: Vec<Value> = es.iter().map(|(p, v)| json!({"p": ctx.enc(p), "v": v})).collect();
    let mut qs = vec![];
    for qj in queries {
        let q: P = ctx.dec(qj);
        qs.push(query_record(ctx, m, qj, &q));
    }
    // sub-trie views, judged against the same contents: the whole sub-view graph below view_at(q) for a few
    // q (C11) and searches from those views (C12)
    let mut vd = vec![];
    let mut fd = vec![];
    let val = |v: &i32| *v;
    for (i, qj) in queries.iter().enumerate().take(5) {
        let q: P = ctx.dec(qj);
        let at = m.view_at(q.clone());
        let d = match &at {
            Some(v) => json!([crate::views::desc(ctx, v, &val, 0)]),
            None => json!([]),
        };
        vd.push(json!({"q": {"n": qj["n"], "h": "0"}, "d": d}));
        if let Some(v) = at {
            for (j, q2j) in queries.iter().enumerate().skip(i % 3).step_by(3).take(4) {
                let q2: P = ctx.dec(q2j);
                let kind = ["find", "find_exact", "find_lpm"][(i + j) % 3];
                let res = match kind {
                    "find" => v.find(q2.clone()),
                    "find_exact" => v.find_exact(&q2),
                    _ => v.find_lpm(&q2),
                };
                let r = match res {
                    Some(x) => json!([crate::views::short(ctx, &x, &val)]),
                    None => json!([]),
                };
                fd.push(json!({"q0": {"n": qj["n"], "h": "0"}, "q": {"n": q2j["n"], "h": "0"}, "kind": kind, "r": r}));
            }
        }
    }
    json!({"a": "Obs", "E": e_json, "iter": iter_json, "len": m.len(), "empty": m.is_empty(), "qs": qs, "vd": vd, "fd": fd,
           "t": Coll::<P>::tree(m, ctx)})
}

fn obs_event<P: PT>(g: &mut Gen, ctx: &Ctx, m: &PrefixMap<P, i32>) -> Value {
    let nq = g.queries.len().min(14);
    let queries: Vec<Value> = (0..nq).map(|_| g.query()).collect();
    let universe = g.queries.clone();
    obs_event_over(ctx, m, &universe, &queries)
}

fn query_record<P: PT>(ctx: &Ctx, m: &PrefixMap<P, i32>, qj: &Value, q: &P) -> Value {
    let qj = qj.clone();
    let q = q.clone();
    {
        let lpm = m.get_lpm(&q).map(|(p, v)| (p.clone(), *v));
        let lpm_p = m.get_lpm_prefix(&q).cloned();
        let spm = m.get_spm(&q).map(|(p, v)| (p.clone(), *v));
        let spm_p = m.get_spm_prefix(&q).cloned();
        let cover = Coll::<P>::cover(m, &q, 2);
        let ck: Vec<P> = m.cover_keys(&q).take(4096).cloned().collect();
        let cv: Vec<i32> = m.cover_values(&q).take(4096).copied().collect();
        #[allow(unused_mut)]
        let mut rec = json!({
            "q": qj,
            "get": opt(m.get(&q).copied()),
            "kv": pv(ctx, m.get_key_value(&q).map(|(p, v)| (p, *v))),
            "has": [m.contains_key(&q) as i32],
            "lpm": pv(ctx, lpm.as_ref().map(|(p, v)| (p, *v))),
            "spm": pv(ctx, spm.as_ref().map(|(p, v)| (p, *v))),
            "cover": pvs(ctx, cover.clone().into_iter()),
            "children": pvs(ctx, Coll::<P>::children(m, &q).into_iter()),
        });
        // the *_prefix / *_keys / *_values variants are logged as data and judged by TLC as well
        rec["lpmp"] = match &lpm_p { Some(p) => json!([ctx.enc(p)]), None => json!([]) };
        rec["spmp"] = match &spm_p { Some(p) => json!([ctx.enc(p)]), None => json!([]) };
        rec["ck"] = Value::Array(ck.iter().map(|p| ctx.enc(p)).collect());
        rec["cv"] = json!(cv);
        let _ = (&lpm, &spm);
        rec
    }
}

/// run `runs` histories of `events` calls each and write them to `out`
pub fn drive<P: PT>(seed: u64, runs: usize, events: usize, prof: &Profile, out: &mut dyn Write) -> Value {
    let ctx = Ctx::plain(P::TW);
    let mut rng = StdRng::seed_from_u64(seed);
    let mut rng2 = StdRng::seed_from_u64(seed ^ 0x5eed);
    let mut total = 0u64;
    let mut per_action: std::collections::BTreeMap<String, u64> = Default::default();
    let mut max_entries = 0usize;
    for _run in 0..runs {
        let keys = if prof.chain { chain_set(&mut rng, P::TW as usize) } else { working_set(&mut rng, P::TW as usize) };
        let queries = neighbours(&keys, P::TW as usize, &mut rng);
        let mut g = Gen { rng: &mut rng, tw: P::TW as usize, keys, queries, hosts: P::HOSTS };
        let mut a: PrefixMap<P, i32> = PrefixMap::new();
        let mut b: PrefixMap<P, i32> = PrefixMap::new();
        let mut sset: PrefixSet<P> = PrefixSet::new();
        writeln!(out, "{}", json!({"a": "Reset"})).unwrap();
        total += 1;
        let mut drifted = false;
        for i in 0..events {
            crate::model::watch_end();
            if drifted {
                break;
            }
            if prof.obs_every > 0 && i % prof.obs_every == prof.obs_every - 1 {
                watch_begin(&json!({"a": "Obs"}));
                let mut e = obs_event(&mut g, &ctx, &a);
                e["sr"] = json!(true);
                if prof.obs_only {
                    e["nolen"] = json!(true);
                }
                writeln!(out, "{}", serde_json::to_string(&e).unwrap()).unwrap();
                total += 1;
                *per_action.entry("Obs".into()).or_default() += 1;
                continue;
            }
            let on_b = prof.pairs && g.rng.gen_bool(0.4);
            let roll = g.rng.gen_range(0..100);
            let mut ev: Value = if prof.pairs && roll >= 80 {
                let op = ["Union", "Inter", "Diff", "CovDiff", "UnionMut", "InterMut", "DiffMut", "CovDiffMut", "Eq"][g.rng.gen_range(0..9)];
                if op == "Eq" {
                    json!({"a": "Eq"})
                } else {
                    let (qa, qb) = (g.query(), g.query());
                    // set operations identify views by key only
                    json!({"a": op, "qa": {"n": qa["n"], "h": "0"}, "qb": {"n": qb["n"], "h": "0"}})
                }
            } else if roll < 34 {
                json!({"a": "Insert", "p": g.key(), "v": g.val()})
            } else if roll < 46 {
                json!({"a": "Remove", "p": g.key()})
            } else if roll < 51 {
                json!({"a": "RemoveKeepTree", "p": g.key()})
            } else if roll < 54 {
                json!({"a": "RemoveChildren", "p": g.query()})
            } else if roll < 57 {
                let cur: Vec<Vec<u8>> = Coll::<P>::entries(if on_b { &b } else { &a }).iter().map(|(p, _)| p.to_sp().n).collect();
                let keep: Vec<Vec<u8>> = cur.into_iter().filter(|_| g.rng.gen_bool(0.6)).collect();
                let n_entries = if on_b { b.len() } else { a.len() };
                let panic_at = if prof.retain_panic && n_entries > 0 && g.rng.gen_bool(0.5) { g.rng.gen_range(1..=n_entries) } else { 0 };
                json!({"a": "Retain", "keep": keep, "panicAt": panic_at})
            } else if roll < 58 {
                json!({"a": "Clear"})
            } else if prof.entry && roll < 68 {
                let p = g.key();
                let q: P = ctx.dec(&p);
                let occ = (if on_b { &b } else { &a }).contains_key(&q);
                json!({"a": "Entry", "p": p, "ops": entry_ops(&mut g, occ)})
            } else if prof.writes && roll < 74 {
                let n = (if on_b { b.len() } else { a.len() }) as u64;
                match g.rng.gen_range(0..5) {
                    0 => json!({"a": "GetMut", "p": g.key(), "v": g.val()}),
                    1 => json!({"a": "LpmMut", "p": g.query(), "v": g.val()}),
                    2 => json!({"a": "IterMut", "k": g.rng.gen_range(0..=n)}),
                    3 => json!({"a": "ValuesMut", "k": g.rng.gen_range(0..=n)}),
                    _ => json!({"a": "ChildrenMut", "p": g.query(), "k": g.rng.gen_range(0..=n)}),
                }
            } else if prof.views && roll < 80 {
                match g.rng.gen_range(0..4) {
                    0 => json!({"a": "ViewDesc", "p": g.query()}),
                    1 => {
                        let kind = ["find", "find_exact", "find_lpm"][g.rng.gen_range(0..3)];
                        json!({"a": "Find", "p": g.query(), "q": g.query(), "kind": kind})
                    }
                    2 => {
                        let how = ["value_mut", "prefix_value_mut"][g.rng.gen_range(0..2)];
                        json!({"a": "ViewValueMut", "p": g.query(), "how": how})
                    }
                    _ => {
                        let how = ["iter_mut", "values_mut", "into_iter"][g.rng.gen_range(0..3)];
                        let k = g.rng.gen_range(0..=(a.len() as u64));
                        json!({"a": "ViewIterMut", "p": g.query(), "k": k, "how": how})
                    }
                }
            } else if prof.view_mut && roll < 84 {
                if g.rng.gen_bool(0.5) {
                    json!({"a": "ViewSet", "p": g.query(), "v": g.val()})
                } else {
                    json!({"a": "ViewRemove", "p": g.query()})
                }
            } else {
                let a_ = ["Get", "GetKV", "Contains", "Lpm", "Spm", "Cover", "Children", "Iter", "Len"][g.rng.gen_range(0..9)];
                if a_ == "Iter" || a_ == "Len" {
                    json!({"a": a_})
                } else {
                    json!({"a": a_, "p": g.query()})
                }
            };
            if prof.with_set {
                // a set stores no values: every value is 1
                if ev.get("v").is_some() {
                    ev["v"] = json!(1);
                }
            }
            let name = ev["a"].as_str().unwrap().to_string();
            *per_action.entry(name.clone()).or_default() += 1;
            total += 1;
            if crate::pairs::is_pair_op(&name) {
                let o = if name == "Eq" {
                    Outcome { ret: a.pair_eq(&b), pan: false }
                } else {
                    let qa: P = ctx.dec(&ev["qa"]);
                    let qb: P = ctx.dec(&ev["qb"]);
                    guarded(|| a.pair_op(&mut b, &ctx, &name, &qa, &qb))
                };
                if !prof.obs_only {
                    log_line(out, &ev, &o, None, None);
                }
                continue;
            }
            let target = if on_b { &mut b } else { &mut a };
            if on_b {
                ev["m"] = json!("B");
            }
            // (the cached counter itself, not len(): a len() that does not use the counter must not hide the drift)
            let len_before = target.verif_snapshot().count as i64 - Coll::<P>::entries(target).len() as i64;
            let o = apply::<P, PrefixMap<P, i32>>(target, &ev, &ctx).expect("map event");
            let snap = acct(&target.verif_snapshot());
            let tree = if prof.tree_every > 0 && i % prof.tree_every == 0 { Some(Coll::<P>::tree(target, &ctx)) } else { None };
            max_entries = max_entries.max(target.len());
            let mut o = o;
            if prof.with_set && !on_b {
                // the same call on a PrefixSet must behave like the map with unit values
                let set_keys_before: Vec<Value> = {
                    let mut es = vec![];
                    crate::replay::tree_entries(&Coll::<P>::tree(&sset, &ctx), &mut es);
                    es.into_iter().map(|e| json!([e[0], e[1]])).collect()
                };
                if let Some(os) = apply::<P, PrefixSet<P>>(&mut sset, &ev, &ctx) {
                    if ev["a"] == "Retain" && os.ret != o.ret {
                        // the order of retain's predicate calls is open (C10 / C20): without a panic the calls are
                        // compared as a multiset; with one, the set is judged on the calls IT made, then put
                        // back in step with the map
                        let sorted = |v: &Value| -> Vec<String> {
                            let mut a: Vec<String> = v.as_array().map(|x| x.iter().map(|y| y.to_string()).collect()).unwrap_or_default();
                            a.sort();
                            a
                        };
                        let ok = if !os.pan && !o.pan {
                            sorted(&os.ret) == sorted(&o.ret)
                        } else if os.pan && o.pan {
                            let calls = os.ret.as_array().cloned().unwrap_or_default();
                            let keep = ev["keep"].as_array().cloned().unwrap_or_default();
                            let before = &calls[..calls.len().saturating_sub(1)];
                            let want: Vec<Value> = set_keys_before
                                .iter()
                                .filter(|k| !(before.iter().any(|c| c["n"] == k[0]) && !keep.iter().any(|x| *x == k[0])))
                                .cloned()
                                .collect();
                            let mut es = vec![];
                            crate::replay::tree_entries(&Coll::<P>::tree(&sset, &ctx), &mut es);
                            let got: Vec<Value> = es.into_iter().map(|e| json!([e[0], e[1]])).collect();
                            calls.len() == o.ret.as_array().map(|a| a.len()).unwrap_or(0) && want == got
                        } else {
                            false
                        };
                        if ok {
                            sset = target.keys().map(|p| P::from_repr_len(p.repr(), p.prefix_len())).collect();
                            if !prof.obs_only {
                                log_line(out, &ev, &o, Some(snap), tree);
                            } else {
                                let mut l = ev.clone();
                                l["lenient"] = json!(true);
                                writeln!(out, "{}", serde_json::to_string(&l).unwrap()).unwrap();
                            }
                            continue;
                        }
                    }
                    // (results, contents and length; the set's shape and arena are judged by the set's own
                    // table and trace jobs, not by likeness to the map)
                    let keys_of = |t: &Value| -> Vec<Value> {
                        let mut es = vec![];
                        crate::replay::tree_entries(t, &mut es);
                        es.into_iter().map(|e| json!([e[0], e[1]])).collect()
                    };
                    let same = os.ret == o.ret && os.pan == o.pan
                        && keys_of(&Coll::<P>::tree(&sset, &ctx)) == keys_of(&Coll::<P>::tree(&*target, &ctx))
                        && Coll::<P>::len(&sset) == target.len();
                    if !same {
                        o = Outcome { ret: json!(["SET-DIFFERS", os.ret, o.ret]), pan: o.pan };
                    }
                }
            }
            if !prof.obs_only {
                log_line(out, &ev, &o, Some(snap), tree);
            } else {
                // the call itself only advances the specification ...
                let mut l = ev.clone();
                l["lenient"] = json!(true);
                writeln!(out, "{}", serde_json::to_string(&l).unwrap()).unwrap();
            }
            if prof.obs_only && !on_b {
                // ... and the observers are judged after every call
                let nq = g.queries.len();
                let queries: Vec<Value> = (0..nq.min(10))
                    .map(|_| json!({"n": g.queries[rng2.gen_range(0..nq)], "h": "0"}))
                    .collect();
                let mut l = obs_event_over(&ctx, &*target, &g.queries, &queries);
                l["nolen"] = json!(true);
                l["sr"] = json!(true);
                writeln!(out, "{}", serde_json::to_string(&l).unwrap()).unwrap();
            }
            let len_after = target.verif_snapshot().count as i64 - Coll::<P>::entries(target).len() as i64;
            if len_after < 0 && len_after != len_before {
                // finding F4 (TrieViewMut::set on a value-less node): the counter lags behind and the
                // next removal would underflow it; the run ends here
                drifted = true;
            }
        }
    }
    json!({"lines": total, "per_action": per_action, "max_entries": max_entries, "ptype": P::NAME, "seed": seed})
}


/// Re-execute a recorded sequence of events (results ignored) on fresh collections and log what
/// the current code does -- used by `./check --replay` for counterexamples found by trace validation.
pub fn rerun<P: PT>(events: &[Value], out: &mut dyn Write) -> Value {
    let ctx = Ctx::plain(P::TW);
    let mut a: PrefixMap<P, i32> = PrefixMap::new();
    let mut b: PrefixMap<P, i32> = PrefixMap::new();
    let mut universe: Vec<Vec<u8>> = vec![vec![]];
    let mut n = 0u64;
    let note = |u: &mut Vec<Vec<u8>>, v: &Value| {
        if let Some(bits) = v.get("n") {
            let k = Ctx::bits(bits);
            if !u.contains(&k) {
                u.push(k);
            }
        }
    };
    for ev0 in events {
        let mut ev = ev0.clone();
        for k in ["ret", "pan", "x", "t"] {
            if let Some(o) = ev.as_object_mut() {
                o.remove(k);
            }
        }
        for k in ["p", "q", "qa", "qb"] {
            if let Some(v) = ev.get(k) {
                note(&mut universe, v);
            }
        }
        let name = ev["a"].as_str().unwrap_or("?").to_string();
        n += 1;
        if name == "Reset" {
            a = PrefixMap::new();
            b = PrefixMap::new();
            writeln!(out, "{}", json!({"a": "Reset"})).unwrap();
            continue;
        }
        if name == "Obs" {
            for e in ev0["E"].as_array().cloned().unwrap_or_default() {
                note(&mut universe, &e);
            }
            let queries: Vec<Value> = ev0["qs"].as_array().map(|qs| qs.iter().map(|q| q["q"].clone()).collect()).unwrap_or_default();
            for q in &queries {
                note(&mut universe, q);
            }
            watch_begin(&json!({"a": "Obs"}));
            let mut l = obs_event_over(&ctx, &a, &universe, &queries);
            if ev0.get("nolen").is_some() {
                l["nolen"] = json!(true);
            }
            writeln!(out, "{}", serde_json::to_string(&l).unwrap()).unwrap();
            continue;
        }
        if crate::pairs::is_pair_op(&name) {
            let o = if name == "Eq" {
                Outcome { ret: a.pair_eq(&b), pan: false }
            } else {
                let qa: P = ctx.dec(&ev["qa"]);
                let qb: P = ctx.dec(&ev["qb"]);
                guarded(|| a.pair_op(&mut b, &ctx, &name, &qa, &qb))
            };
            log_line(out, &ev, &o, None, None);
            continue;
        }
        let on_b = ev.get("m").and_then(|m| m.as_str()) == Some("B");
        let target = if on_b { &mut b } else { &mut a };
        let o = apply::<P, PrefixMap<P, i32>>(target, &ev, &ctx).expect("map event");
        let snap = acct(&target.verif_snapshot());
        let tree = Some(Coll::<P>::tree(target, &ctx));
        log_line(out, &ev, &o, Some(snap), tree);
    }
    json!({"lines": n, "ptype": P::NAME})
}
