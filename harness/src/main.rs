mod alg;
mod codec;
mod model;
mod pairs;
mod replay;
mod sched;
mod trace;
mod views;

use codec::*;
use model::*;
use prefix_trie::*;
use serde_json::{json, Value};
use std::collections::HashMap;
use std::io::{BufRead, BufReader, Write};

fn args_map() -> (String, HashMap<String, String>) {
    let mut it = std::env::args().skip(1);
    let cmd = it.next().unwrap_or_else(|| "help".into());
    let mut m = HashMap::new();
    let mut key: Option<String> = None;
    for a in it {
        if let Some(k) = a.strip_prefix("--") {
            if let Some(k0) = key.take() {
                m.insert(k0, "true".into());
            }
            key = Some(k.to_string());
        } else if let Some(k0) = key.take() {
            m.insert(k0, a);
        }
    }
    if let Some(k0) = key.take() {
        m.insert(k0, "true".into());
    }
    (cmd, m)
}

fn ctx_for<P: PT>(spec: &str) -> Ctx {
    // "plain" or "stretch:<keylen>"
    if let Some(k) = spec.strip_prefix("stretch:") {
        Ctx::stretched(P::TW, k.parse().unwrap())
    } else {
        Ctx::plain(P::TW)
    }
}

fn do_replay<P: PT>(opts: &HashMap<String, String>) -> Value {
    let ctx = ctx_for::<P>(opts.get("ctx").map(|s| s.as_str()).unwrap_or("plain"));
    let path = opts.get("rows").expect("--rows");
    let f: Box<dyn std::io::Read> = if path == "-" {
        Box::new(std::io::stdin())
    } else {
        Box::new(std::fs::File::open(path).expect("rows file"))
    };
    let mut rd = BufReader::with_capacity(1 << 20, f);
    let maxmm = opts.get("max-mismatch").map(|s| s.parse().unwrap()).unwrap_or(20);
    let coll = opts.get("coll").map(|s| s.as_str()).unwrap_or("map");
    let mut rep = replay::Report::default();
    let mut side_file = opts.get("side").map(|p| std::io::BufWriter::new(std::fs::File::create(p).unwrap()));
    let side: Option<&mut dyn Write> = side_file.as_mut().map(|f| f as &mut dyn Write);
    if coll == "set" {
        replay::replay_rows::<P, PrefixSet<P>>(&mut rd as &mut dyn BufRead, &ctx, maxmm, &mut rep, side);
    } else {
        replay::replay_rows::<P, PrefixMap<P, i32>>(&mut rd as &mut dyn BufRead, &ctx, maxmm, &mut rep, side);
    }
    if let Some(f) = side_file.as_mut() {
        f.flush().unwrap();
    }
    replay::report_json(&rep, P::NAME, coll)
}

fn do_replay_pairs<P: PT>(opts: &HashMap<String, String>) -> Value {
    let ctx = ctx_for::<P>(opts.get("ctx").map(|s| s.as_str()).unwrap_or("plain"));
    let path = opts.get("rows").expect("--rows");
    let f = std::fs::File::open(path).expect("rows file");
    let mut rd = BufReader::with_capacity(1 << 20, f);
    let maxmm = opts.get("max-mismatch").map(|s| s.parse().unwrap()).unwrap_or(20);
    let coll = opts.get("coll").map(|s| s.as_str()).unwrap_or("map-map");
    let mut rep = pairs::PairReport::default();
    let rd = &mut rd as &mut dyn BufRead;
    match coll {
        "map-map" => pairs::replay_pairs::<P, PrefixMap<P, i32>, PrefixMap<P, i32>>(rd, &ctx, false, false, maxmm, &mut rep),
        "map-str" => pairs::replay_pairs::<P, PrefixMap<P, i32>, pairs::StrMap<P>>(rd, &ctx, false, false, maxmm, &mut rep),
        "map-set" => pairs::replay_pairs::<P, PrefixMap<P, i32>, PrefixSet<P>>(rd, &ctx, false, true, maxmm, &mut rep),
        "set-map" => pairs::replay_pairs::<P, PrefixSet<P>, PrefixMap<P, i32>>(rd, &ctx, true, false, maxmm, &mut rep),
        "set-set" => pairs::replay_pairs::<P, PrefixSet<P>, PrefixSet<P>>(rd, &ctx, true, true, maxmm, &mut rep),
        other => panic!("unknown pair kind {other}"),
    }
    pairs::pair_report_json(&rep, P::NAME, coll)
}

fn do_trace<P: PT>(opts: &HashMap<String, String>) -> Value {
    let seed = opts.get("seed").map(|s| s.parse().unwrap()).unwrap_or(1u64);
    let runs = opts.get("runs").map(|s| s.parse().unwrap()).unwrap_or(4usize);
    let events = opts.get("events").map(|s| s.parse().unwrap()).unwrap_or(500usize);
    let prof = trace::Profile::named(opts.get("profile").map(|s| s.as_str()).unwrap_or("full"));
    let path = opts.get("trace").expect("--trace FILE");
    let mut f = std::io::BufWriter::new(std::fs::File::create(path).unwrap());
    let r = trace::drive::<P>(seed, runs, events, &prof, &mut f);
    f.flush().unwrap();
    r
}

fn do_rerun<P: PT>(opts: &HashMap<String, String>) -> Value {
    let evs: Vec<Value> = std::fs::read_to_string(opts.get("events").expect("--events FILE"))
        .unwrap()
        .lines()
        .filter(|l| !l.trim().is_empty())
        .map(|l| serde_json::from_str(l).unwrap())
        .collect();
    let path = opts.get("trace").expect("--trace FILE");
    let mut f = std::io::BufWriter::new(std::fs::File::create(path).unwrap());
    let r = trace::rerun::<P>(&evs, &mut f);
    f.flush().unwrap();
    r
}

fn do_alg<P: PT>(opts: &HashMap<String, String>) -> Value {
    let seed = opts.get("seed").map(|s| s.parse().unwrap()).unwrap_or(1u64);
    let mode = opts.get("mode").map(|s| s.as_str()).unwrap_or("quick");
    let path = opts.get("trace").expect("--trace FILE");
    let mut f = std::io::BufWriter::new(std::fs::File::create(path).unwrap());
    let r = alg::run::<P>(seed, mode, &mut f);
    f.flush().unwrap();
    r
}

fn do_sched<P: PT>(opts: &HashMap<String, String>) -> Value {
    let seed = opts.get("seed").map(|s| s.parse().unwrap()).unwrap_or(1u64);
    let runs = opts.get("runs").map(|s| s.parse().unwrap()).unwrap_or(20usize);
    let path = opts.get("trace").expect("--trace FILE");
    let mut f = std::io::BufWriter::new(std::fs::File::create(path).unwrap());
    let r = sched::run::<P>(seed, runs, &mut f);
    f.flush().unwrap();
    r
}

fn main() {
    // panics of the code under test are data; keep stderr quiet
    std::panic::set_hook(Box::new(|_| {}));
    let (cmd, opts) = args_map();
    // watchdog: a call of the code under test that does not return within the limit is reported as
    // divergence (exit status 3, the event on stdout) instead of hanging the check
    let limit = opts.get("call-timeout").map(|s| s.parse().unwrap()).unwrap_or(60u64);
    let out_path = opts.get("out").cloned();
    std::thread::spawn(move || loop {
        std::thread::sleep(std::time::Duration::from_millis(500));
        let stalled = match model::CURRENT.lock() {
            Ok(g) => g.as_ref().and_then(|(t, e)| if t.elapsed().as_secs() >= limit { Some(e.clone()) } else { None }),
            Err(_) => None,
        };
        if let Some(e) = stalled {
            let ev: Value = serde_json::from_str(&e).unwrap_or(json!({}));
            let s = serde_json::to_string(&json!({"diverged": true, "event": ev})).unwrap();
            if let Some(p) = &out_path {
                let _ = std::fs::write(p, &s);
            }
            println!("{s}");
            std::process::exit(3);
        }
    });
    let out: Value = match cmd.as_str() {
        "replay" => {
            let t = opts.get("type").map(|s| s.as_str()).unwrap_or("u32");
            with_type!(t, do_replay(&opts))
        }
        "replay-pairs" => {
            let t = opts.get("type").map(|s| s.as_str()).unwrap_or("u32");
            with_type!(t, do_replay_pairs(&opts))
        }
        "trace" => {
            let t = opts.get("type").map(|s| s.as_str()).unwrap_or("u32");
            with_type!(t, do_trace(&opts))
        }
        "rerun" => {
            let t = opts.get("type").map(|s| s.as_str()).unwrap_or("u32");
            with_type!(t, do_rerun(&opts))
        }
        "alg" => {
            let t = opts.get("type").map(|s| s.as_str()).unwrap_or("u32");
            with_type!(t, do_alg(&opts))
        }
        "sched" => {
            let t = opts.get("type").map(|s| s.as_str()).unwrap_or("u32");
            with_type!(t, do_sched(&opts))
        }
        "types" => json!(ALL_TYPES),
        _ => {
            eprintln!("usage: verif-harness replay --type T --coll map|set --ctx plain|stretch:K --rows FILE [--out FILE]");
            std::process::exit(2);
        }
    };
    model::watch_end();
    let s = serde_json::to_string(&out).unwrap();
    if let Some(p) = opts.get("out") {
        std::fs::write(p, s).unwrap();
    } else {
        std::io::stdout().write_all(s.as_bytes()).unwrap();
        println!();
    }
}
