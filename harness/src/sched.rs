//! C14, third part: real threads writing through disjoint sub-views of one map.

use crate::codec::*;
use crate::model::*;
use prefix_trie::*;
use rand::rngs::StdRng;
use rand::{Rng, SeedableRng};
use serde_json::{json, Value};
use std::io::Write;

fn kv<P: PT>(ctx: &Ctx, m: &PrefixMap<P, i32>) -> Vec<Value> {
    m.iter().map(|(p, v)| json!({"k": ctx.enc(p)["n"], "v": v})).collect()
}

fn worker<'a, P: PT>(ctx: &Ctx, w: usize, view: TrieViewMut<'a, P, i32>, spin: u32) -> Vec<Value> {
    let mut log = vec![];
    for (p, v) in view {
        let old = *v;
        for _ in 0..spin {
            std::thread::yield_now();
        }
        *v = old + 100 * w as i32;
        log.push(json!({"a": "W", "w": w, "k": ctx.enc(p)["n"], "old": old, "new": *v}));
    }
    log
}

/// split `view` recursively into up to `parts` disjoint views (via split / left / right)
fn carve<'a, P: PT>(view: TrieViewMut<'a, P, i32>, depth: u32, out: &mut Vec<TrieViewMut<'a, P, i32>>, own: &mut Vec<Value>, ctx: &Ctx) {
    if depth == 0 {
        out.push(view);
        return;
    }
    // the entry at the split point itself is written by the coordinating thread
    let mut view = view;
    if let Some((p, v)) = view.prefix_value_mut() {
        let old = *v;
        *v = old + 1000;
        own.push(json!({"a": "W", "w": 10, "k": ctx.enc(p)["n"], "old": old, "new": *v}));
    }
    let (l, r) = view.split();
    if let Some(l) = l {
        carve(l, depth - 1, out, own, ctx);
    }
    if let Some(r) = r {
        carve(r, depth - 1, out, own, ctx);
    }
}

pub fn run<P: PT>(seed: u64, runs: usize, out: &mut dyn Write) -> Value {
    let ctx = Ctx::plain(P::TW);
    let mut rng = StdRng::seed_from_u64(seed);
    let mut lines = 0u64;
    let mut threads_total = 0usize;
    for _ in 0..runs {
        let keys = crate::trace::working_set(&mut rng, P::TW as usize);
        let mut m: PrefixMap<P, i32> = PrefixMap::new();
        for k in &keys {
            if rng.gen_bool(0.8) {
                let p: P = ctx.dec(&json!({"n": k, "h": "0"}));
                m.insert(p, 1);
            }
        }
        // some value-less leftovers
        for k in &keys {
            if rng.gen_bool(0.1) {
                let p: P = ctx.dec(&json!({"n": k, "h": "0"}));
                m.remove_keep_tree(&p);
            }
        }
        let start = keys[rng.gen_range(0..keys.len())].clone();
        let q: P = ctx.dec(&json!({"n": start, "h": "0"}));
        writeln!(out, "{}", json!({"a": "Init", "E": kv(&ctx, &m)})).unwrap();
        lines += 1;
        let cover: Vec<Value> = m.children(&q).map(|(p, v)| json!({"k": ctx.enc(p)["n"], "v": v})).collect();
        let depth = rng.gen_range(1..=3);
        let spin = rng.gen_range(0..4);
        let mut own = vec![];
        let mut logs: Vec<Vec<Value>> = vec![];
        if let Some(view) = m.view_mut_at(q.clone()) {
            let mut parts = vec![];
            carve(view, depth, &mut parts, &mut own, &ctx);
            threads_total += parts.len();
            let ctxr = &ctx;
            std::thread::scope(|s| {
                let hs: Vec<_> = parts
                    .into_iter()
                    .enumerate()
                    .map(|(i, v)| s.spawn(move || worker(ctxr, i + 1, v, spin)))
                    .collect();
                for h in hs {
                    logs.push(h.join().unwrap());
                }
            });
        }
        // the per-worker logs are written in a random order of workers
        logs.push(own);
        while !logs.is_empty() {
            let i = rng.gen_range(0..logs.len());
            for l in logs.swap_remove(i) {
                writeln!(out, "{}", l).unwrap();
                lines += 1;
            }
        }
        writeln!(out, "{}", json!({"a": "Final", "E": kv(&ctx, &m), "cover": cover})).unwrap();
        lines += 1;
    }
    json!({"lines": lines, "runs": runs, "threads": threads_total, "ptype": P::NAME})
}
