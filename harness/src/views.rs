//! Observation of sub-trie views (TrieView / TrieViewMut) in the specification's vocabulary.

use crate::codec::*;
use crate::model::*;
use prefix_trie::*;
use serde_json::{json, Value};

const LIM: usize = 4096;
type ValFn<'f, T> = &'f dyn Fn(&T) -> i32;

fn items<'a, P: PT + 'a, T: 'a>(ctx: &Ctx, it: impl Iterator<Item = (&'a P, &'a T)>, val: ValFn<T>) -> Value {
    Value::Array(it.take(LIM).map(|(p, v)| json!({"p": ctx.enc(p), "v": val(v)})).collect())
}

/// {p, v, it} of an immutable view; keys() and values() must agree with iter()
pub fn short<P: PT, T>(ctx: &Ctx, v: &TrieView<'_, P, T>, val: ValFn<T>) -> Value {
    let it = items(ctx, v.iter(), val);
    let keys: Vec<Value> = v.keys().take(LIM).map(|p| ctx.enc(p)).collect();
    let vals: Vec<i32> = v.values().take(LIM).map(val).collect();
    let it2: Vec<Value> = keys.iter().zip(vals.iter()).map(|(p, v)| json!({"p": p, "v": v})).collect();
    let pvv = v.prefix_value().map(|(p, x)| json!({"p": ctx.enc(p), "v": val(x)}));
    let value = v.value().map(val);
    let mut d = json!({"p": ctx.enc(v.prefix()), "v": opt(value), "it": it});
    if Value::Array(it2) != d["it"] || keys.len() != vals.len() {
        d["keys_values_differ"] = json!(true);
    }
    if pvv.as_ref().map(|x| x["v"].clone()) != value.map(|x| json!(x)) {
        d["prefix_value_differs"] = json!(true);
    }
    d
}

thread_local! { static BUDGET: std::cell::Cell<usize> = std::cell::Cell::new(0); }
fn spend() -> bool {
    BUDGET.with(|b| {
        if b.get() == 0 {
            false
        } else {
            b.set(b.get() - 1);
            true
        }
    })
}
pub fn reset_budget() {
    BUDGET.with(|b| b.set(2048));
}

pub fn desc<P: PT, T>(ctx: &Ctx, v: &TrieView<'_, P, T>, val: ValFn<T>, depth: u32) -> Value {
    if depth == 0 {
        reset_budget();
    }
    let mut d = short(ctx, v, val);
    if depth > ctx.tw + 2 || !spend() {
        d["l"] = json!(["DEPTH"]);
        return d;
    }
    d["l"] = match v.left() {
        Some(x) => json!([desc(ctx, &x, val, depth + 1)]),
        None => json!([]),
    };
    d["r"] = match v.right() {
        Some(x) => json!([desc(ctx, &x, val, depth + 1)]),
        None => json!([]),
    };
    d
}

/// {p, v, it} of a mutable view (iter_mut read-only use; `&view` as AsView must agree)
pub fn short_mut<P: PT, T>(ctx: &Ctx, v: &mut TrieViewMut<'_, P, T>, val: ValFn<T>) -> Value {
    let p = ctx.enc(v.prefix());
    let value = v.value().map(val);
    let it = Value::Array(
        v.iter_mut()
            .take(LIM)
            .map(|(p, x)| json!({"p": ctx.enc(p), "v": val(x)}))
            .collect(),
    );
    let mut d = json!({"p": p, "v": opt(value), "it": it});
    let pvv = v.prefix_value().map(|(_, x)| val(x));
    if pvv != value {
        d["prefix_value_differs"] = json!(true);
    }
    // the read-only view of a mutable view shows the same
    let ro = short(ctx, &(&*v).view(), val);
    if ro["p"] != d["p"] || ro["v"] != d["v"] || ro["it"] != d["it"] {
        d["as_view_differs"] = ro;
    }
    d
}

pub fn desc_mut<P: PT, T>(ctx: &Ctx, mut v: TrieViewMut<'_, P, T>, val: ValFn<T>, depth: u32) -> Value {
    if depth == 0 {
        reset_budget();
    }
    let mut d = short_mut(ctx, &mut v, val);
    if depth > ctx.tw + 2 || !spend() {
        d["l"] = json!(["DEPTH"]);
        return d;
    }
    let (hl, hr) = (v.has_left(), v.has_right());
    let (l, r) = v.split();
    if hl != l.is_some() || hr != r.is_some() {
        d["has_side_differs"] = json!([hl, hr, l.is_some(), r.is_some()]);
    }
    d["l"] = match l {
        Some(x) => json!([desc_mut(ctx, x, val, depth + 1)]),
        None => json!([]),
    };
    d["r"] = match r {
        Some(x) => json!([desc_mut(ctx, x, val, depth + 1)]),
        None => json!([]),
    };
    d
}

/// desc through left()/right() of the mutable view (each consumes the view, so the path from
/// the start is re-walked): checks that left/right agree with split
pub fn sides_mut<P: PT, T>(ctx: &Ctx, v: TrieViewMut<'_, P, T>, val: ValFn<T>) -> Value {
    let hl = v.has_left();
    match v.left() {
        Ok(mut l) => json!({"left": short_mut(ctx, &mut l, val), "has_left": hl}),
        Err(mut orig) => json!({"left": null, "has_left": hl, "orig": short_mut(ctx, &mut orig, val)}),
    }
}

pub fn view_desc<'a, P: PT, T: 'a>(
    ctx: &Ctx,
    ro: Option<TrieView<'a, P, T>>,
    val: ValFn<T>,
) -> Value {
    match ro {
        Some(v) => json!([desc(ctx, &v, val, 0)]),
        None => json!([]),
    }
}

/// find / find_exact / find_lpm from an immutable view
pub fn find_ro<P: PT, T>(ctx: &Ctx, at: Option<TrieView<'_, P, T>>, q: P, kind: &str, val: ValFn<T>) -> Value {
    let Some(v) = at else { return json!([]) };
    let res = match kind {
        "find" => v.find(q),
        "find_exact" => v.find_exact(&q),
        _ => v.find_lpm(&q),
    };
    match res {
        Some(x) => json!([{"ok": 1, "d": short(ctx, &x, val)}]),
        None => json!([{"ok": 0, "d": short(ctx, &v, val)}]),
    }
}

pub fn find_mut<P: PT, T>(ctx: &Ctx, at: Option<TrieViewMut<'_, P, T>>, q: P, kind: &str, val: ValFn<T>) -> Value {
    let Some(v) = at else { return json!([]) };
    let res = match kind {
        "find" => v.find(q),
        "find_exact" => v.find_exact(&q),
        _ => v.find_lpm(&q),
    };
    match res {
        Ok(mut x) => json!([{"ok": 1, "d": short_mut(ctx, &mut x, val)}]),
        Err(mut o) => json!([{"ok": 0, "d": short_mut(ctx, &mut o, val)}]),
    }
}

fn strip_flags(v: &Value) -> Value {
    v.clone()
}

/// ViewDesc on a map or set: immutable and mutable observation must coincide
pub fn both_desc(ro: Value, rw: Value) -> Value {
    if ro == rw {
        strip_flags(&ro)
    } else {
        json!(["MUT-DIFFERS", ro, rw])
    }
}
