#!/usr/bin/env python3
"""Print a markdown table of what the committed evidence files say (tier, states, transitions, rows+lines, wall)."""
import json, glob, os
V = os.path.dirname(os.path.dirname(os.path.abspath(__file__)))
print("| id | tier | level | TLC states | TLC transitions | executed on the code | of which trace lines | wall s |")
print("|---|---|---|---|---|---|---|---|")
for f in sorted(glob.glob(os.path.join(V, "evidence", "*.json"))):
    e = json.load(open(f)); c = e["coverage"]
    ex = c.get("traces_validated_against_impl", c.get("evaluations"))
    print(f"| {e['property_id']} | {e['tier']} | {e['level']} | {c.get('states','—')} | {c.get('transitions','—')} | {ex} | {c.get('trace_lines_validated_by_tlc','—')} | {e['wall_s']} |")
