#!/usr/bin/env python3
"""Development tool: run, for every seeded change under /verif/seeded, the quick check of the property it was
written for (and of the properties listed in also.txt) and record the outcome in meta.json.
Uses parallel lanes (scratch git worktrees of /repo under /tmp, selected through VERIF_REPO), so /repo itself is
never touched.  usage: seedmatrix.py [lanes] [name-prefix ...]"""
import json, os, queue, subprocess, sys, threading, shutil, hashlib

VERIF = os.path.dirname(os.path.dirname(os.path.abspath(__file__)))
lanes = int(sys.argv[1]) if len(sys.argv) > 1 else 3
prefix = tuple(sys.argv[2:]) or ("",)     # one or more name prefixes
q = queue.Queue()
for name in sorted(os.listdir(os.path.join(VERIF, "seeded"))):
    d = os.path.join(VERIF, "seeded", name)
    if not name.startswith(prefix) or not os.path.exists(os.path.join(d, "meta.json")):
        continue
    meta = json.load(open(os.path.join(d, "meta.json")))
    props = [meta["written_for_property"][:3]]
    if os.path.exists(os.path.join(d, "also.txt")):
        props += open(os.path.join(d, "also.txt")).read().split()
    q.put((name, d, props))
lock = threading.Lock()


def lane(i):
    wt = f"/tmp/lane{i}"
    subprocess.run(["git", "-C", "/repo", "worktree", "remove", "--force", wt], capture_output=True)
    subprocess.run(["git", "-C", "/repo", "worktree", "add", "--detach", wt, "HEAD", "-q"], check=True, capture_output=True)
    shutil.copy("/repo/Cargo.lock", wt)
    env = dict(os.environ, VERIF_REPO=wt)
    while True:
        try:
            name, d, props = q.get_nowait()
        except queue.Empty:
            break
        subprocess.run(["git", "-C", wt, "checkout", "--", "."], capture_output=True)
        p = subprocess.run(["git", "-C", wt, "apply", os.path.join(d, "patch.diff")], capture_output=True, text=True)
        res = {}
        if p.returncode != 0:
            res = {props[0]: "patch does not apply: " + p.stderr[:200]}
        else:
            for pr in props:
                r = subprocess.run(["./check", pr, "quick"], cwd=VERIF, env=env, capture_output=True, text=True)
                lines = [l for l in r.stdout.split("\n") if l.startswith(("VIOLATION", "OK", "TOOL-ERROR"))]
                res[pr] = "; ".join(lines[:2])[:300] or f"rc={r.returncode} (no verdict line)"
        with lock:
            m = json.load(open(os.path.join(d, "meta.json")))
            m["final_quick_results"] = res
            json.dump(m, open(os.path.join(d, "meta.json"), "w"), indent=1)
            print(name, {k: v.split(" ")[0] for k, v in res.items()}, flush=True)
    subprocess.run(["git", "-C", wt, "checkout", "--", "."], capture_output=True)
    subprocess.run(["git", "-C", "/repo", "worktree", "remove", "--force", wt], capture_output=True)
    h = "lane_" + hashlib.sha256(wt.encode()).hexdigest()[:8]
    shutil.rmtree(os.path.join(VERIF, "work", h), ignore_errors=True)


ths = [threading.Thread(target=lane, args=(i,)) for i in range(lanes)]
[t.start() for t in ths]
[t.join() for t in ths]
