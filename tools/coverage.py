#!/usr/bin/env python3
"""Development tool (not a registered check): run TLC with -coverage 1 on the U2 configuration and list the
expressions of the core modules that were never evaluated (vacuity guard). Needs ~20 GB heap and ~7 min."""
import sys; sys.path.insert(0,'/verif/tools')
import vlib, plans, re
j=plans.TableJob("cov_u2", plans.MUT+["Lpm","Spm","Cover","Children","Iter","ViewDesc","Find","ViewSet","ViewRemove"], [], vals="{1}", maxcount=7, timeout=600, workers=6)
r=vlib.tlc_run(j.name, "MC", j.consts, inv=j.inv, prop=j.props, view="View", constraint="Bound", action_constraint="Emit", workers=2, timeout=900, extra_args=["-coverage","1"], java_opts="-Xmx20g -Xss256m")
print({k:r.get(k) for k in ('ok','generated','distinct','wall')})
out=open(r["log"]).read()
# lines of the form "  line 62, col 12 to line 62, col 40 of module Trie: 1234"
zero=[l for l in out.split("\n") if re.search(r"of module (Trie|Views|SetOps|Entry|Events): 0$", l.strip())]
print("zero-count expressions in core modules:", len(zero))
for l in zero[:60]: print(l.strip())
