#!/usr/bin/env python3
"""Shared machinery of the /verif checks: build the harness against /repo's working tree, run
TLC on generated configurations, replay TLC rows on the code, validate traces recorded from
the code with TLC, classify disagreements by owning property, write evidence and replay files.

Exit codes of a check: 0 property held on everything explored (KNOWN-FINDING lines allowed),
1 VIOLATION (with replay file), 2 tool error / time-out / harness does not build.
"""
import hashlib, json, os, re, subprocess, sys, time, shutil, threading

VERIF = os.path.dirname(os.path.dirname(os.path.abspath(__file__)))
# The registered checks always test /repo.  For development (seeded changes tested in parallel lanes) another
# checkout can be named with VERIF_REPO; it gets its own scratch directory and its own copy of the harness.
REPO = os.environ.get("VERIF_REPO", "/repo")
_LANE = "" if REPO == "/repo" else "lane_" + hashlib.sha256(REPO.encode()).hexdigest()[:8]
WORK = os.path.join(VERIF, "work", _LANE) if _LANE else os.path.join(VERIF, "work")
SPEC = os.path.join(VERIF, "spec")
HARNESS = os.path.join(VERIF, "harness")


def _lane_harness():
    """a copy of the harness crate whose path dependency points at REPO"""
    global HARNESS
    if not _LANE:
        return
    d = os.path.join(WORK, "harness")
    os.makedirs(os.path.join(d, ".cargo"), exist_ok=True)
    src = os.path.join(VERIF, "harness")
    shutil.rmtree(os.path.join(d, "src"), ignore_errors=True)
    shutil.copytree(os.path.join(src, "src"), os.path.join(d, "src"))
    shutil.copy(os.path.join(src, "Cargo.lock"), d)
    shutil.copy(os.path.join(src, ".cargo", "config.toml"), os.path.join(d, ".cargo", "config.toml"))
    toml = open(os.path.join(src, "Cargo.toml")).read().replace('path = "/repo"', f'path = "{REPO}"')
    open(os.path.join(d, "Cargo.toml"), "w").write(toml)
    HARNESS = d
REPLAYS = os.path.join(VERIF, "replays")
EVID = os.path.join(VERIF, "evidence") if not _LANE else os.path.join(WORK, "evidence")
JAVA_CP = "/opt/veriftools/tla/tla2tools.jar:/opt/veriftools/tla/CommunityModules-deps.jar"

sys.path.insert(0, os.path.join(VERIF, "tools"))
import mkcfg


class ToolError(Exception):
    pass


def log(*a):
    print("[verif]", *a, file=sys.stderr, flush=True)


def seed():
    try:
        return int(os.environ.get("VERIF_SEED", "1"))
    except ValueError:
        return 1


# ---------------------------------------------------------------------------------------------
# harness
# ---------------------------------------------------------------------------------------------
_built = {}


def build_harness(profile="dev"):
    """cargo build of /verif/harness (path dependency on /repo, hooks on). Returns binary path."""
    if profile in _built:
        return _built[profile]
    _lane_harness()
    args = ["cargo", "build", "--offline"] + (["--release"] if profile == "release" else [])
    env = dict(os.environ, CARGO_NET_OFFLINE="true")
    t0 = time.time()
    p = subprocess.run(args, cwd=HARNESS, env=env, capture_output=True, text=True)
    if p.returncode != 0:
        sys.stderr.write(p.stderr[-4000:])
        raise ToolError("harness does not build against the current /repo tree (cargo build failed)")
    log(f"harness built ({profile}) in {time.time()-t0:.1f}s")
    b = os.path.join(HARNESS, "target", "release" if profile == "release" else "debug", "verif-harness")
    _built[profile] = b
    return b


def build_harness_async(profile="dev"):
    res = {}

    def run():
        try:
            res["bin"] = build_harness(profile)
        except Exception as e:  # noqa
            res["err"] = e

    th = threading.Thread(target=run)
    th.start()
    return th, res


# ---------------------------------------------------------------------------------------------
# TLC
# ---------------------------------------------------------------------------------------------
def spec_hash():
    h = hashlib.sha256()
    for f in sorted(os.listdir(SPEC)):
        if f.endswith(".tla"):
            h.update(open(os.path.join(SPEC, f), "rb").read())
    return h.hexdigest()[:12]


def tlc_run(name, root, consts, inv=(), prop=(), view=None, constraint=None, action_constraint=None,
            workers=8, timeout=900, rows_out=None, simulate=None, extra_defs="", postcondition=None,
            env_extra=None, java_opts="-Xmx6g -Xss512m", init="Init", nxt="Next", extra_args=(),
            max_rows=12_000_000):
    """Generate config `name`, run TLC, return dict(ok, states, distinct, depth, out, rows_file, wall)."""
    d = os.path.join(WORK, "cfg_" + name)
    shutil.rmtree(d, ignore_errors=True)
    os.makedirs(d)
    mkcfg.gen(d, name, root, consts, inv=inv, prop=prop, view=view, constraint=constraint,
              action_constraint=action_constraint, extra_defs=extra_defs, postcondition=postcondition,
              init=init, nxt=nxt)
    for f in os.listdir(SPEC):
        if f.endswith(".tla"):
            shutil.copy(os.path.join(SPEC, f), d)
    cmd = ["java", "-XX:+UseParallelGC"] + java_opts.split() + ["-cp", JAVA_CP, "tlc2.TLC",
           "-workers", str(workers), "-metadir", os.path.join(d, "md"), "-cleanup", "-noGenerateSpecTE"]
    if simulate:
        cmd += ["-simulate", simulate]
    cmd += list(extra_args)
    cmd += ["-config", name + ".cfg", name + ".tla"]
    rows_file = rows_out or os.path.join(d, "rows.ndjson")
    log_file = os.path.join(d, "tlc.log")
    t0 = time.time()
    env = dict(os.environ)
    if env_extra:
        env.update(env_extra)
    # split stdout: row lines (start with a quote) -> rows file; the rest -> log
    with open(rows_file, "w") as rf, open(log_file, "w") as lf:
        p = subprocess.Popen(cmd, cwd=d, stdout=subprocess.PIPE, stderr=subprocess.STDOUT, text=True,
                             env=env, bufsize=1 << 20)
        timer = threading.Timer(timeout, p.kill)
        timer.start()
        nrows = 0
        try:
            for line in p.stdout:
                if line.startswith('"'):
                    rf.write(line)
                    nrows += 1
                    if nrows > max_rows:
                        p.kill()
                        raise ToolError(f"configuration {name} emits more than {max_rows} rows (mis-sized)")
                else:
                    lf.write(line)
        finally:
            timer.cancel()
        rc = p.wait()
    out = open(log_file).read()
    wall = time.time() - t0
    res = dict(name=name, rc=rc, wall=round(wall, 1), rows=nrows, rows_file=rows_file, log=log_file, dir=d)
    m = re.search(r"(\d+) states generated, (\d+) distinct states found", out)
    if m:
        res["generated"], res["distinct"] = int(m.group(1)), int(m.group(2))
    if simulate:
        ms = re.findall(r"Progress: (\d+) states checked, (\d+) traces generated", out)
        if ms:
            res["generated"], res["traces"] = int(ms[-1][0]), int(ms[-1][1])
            res["distinct"] = 0
    m = re.search(r"depth of the complete state graph search is (\d+)", out)
    if m:
        res["depth"] = int(m.group(1))
    res["ok"] = ("No error has been found" in out) or (simulate is not None and rc in (0,) and "Error:" not in out)
    if rc < 0 or rc == 137:
        res["timeout"] = True
    if not res["ok"]:
        # extract the violated property for diagnostics
        m = re.search(r"Error: (Invariant \S+ is violated|Action property \S+ is violated|.*)", out)
        res["error"] = m.group(1) if m else out[-1500:]
    log(f"TLC {name}: ok={res['ok']} generated={res.get('generated')} distinct={res.get('distinct')} rows={nrows} {wall:.1f}s")
    return res


# ---------------------------------------------------------------------------------------------
# replaying rows on the code
# ---------------------------------------------------------------------------------------------
def replay_rows(binpath, rows_file, ptype, coll="map", ctx="plain", max_mismatch=40, timeout=3000, extra=(), cmdname="replay"):
    tagbase = f"{os.path.basename(os.path.dirname(rows_file))}_{ptype}_{coll}_{ctx.replace(':','')}" + ("_rel" if "release" in extra else "")
    out = os.path.join(WORK, f"rep_{tagbase}.json")
    side = os.path.join(WORK, f"side_{tagbase}.ndjson")
    cmd = [binpath, cmdname, "--type", ptype, "--coll", coll, "--ctx", ctx, "--rows", rows_file,
           "--out", out, "--max-mismatch", str(max_mismatch)] + list(extra)
    if cmdname == "replay" and coll == "map":
        cmd += ["--side", side]
    t0 = time.time()
    try:
        p = subprocess.run(cmd, capture_output=True, text=True, timeout=timeout)
    except subprocess.TimeoutExpired:
        # A call of the code under test that does not return is detected by the harness's own watchdog (exit
        # status 3, below) and is data.  The whole process running out of time says nothing about the code (a
        # loaded machine is enough): tool error, never a violation.
        raise ToolError(f"replay of {os.path.basename(rows_file)} on {ptype}/{coll} did not finish within {timeout}s")
    if p.returncode == 3:
        d = json.load(open(out))
        return dict(ptype=ptype, coll=coll, ctx=ctx, diverged=True, event=d.get("event"), executed=0, mismatches=[],
                    mismatch_count=0, per_action={}, states=0, samples=[])
    if p.returncode != 0:
        raise ToolError(f"harness replay failed rc={p.returncode}: {p.stderr[-2000:]}")
    r = json.load(open(out))
    r["ctx"] = ctx
    r["build_profile"] = "release" if "release" in extra else "dev"
    r["wall"] = round(time.time() - t0, 1)
    os.remove(out)
    # states the path replay could not reproduce: their observers are judged observation-relatively by TLC
    r["side_rejections"] = []
    if os.path.exists(side):
        if os.path.getsize(side) > 0:
            d = _trace_dir("side_" + tagbase)
            # at most 300 such states are examined
            with open(side) as f:
                lines = f.readlines()[:300]
            tf = os.path.join(d, "trace.ndjson")
            open(tf, "w").write("".join(lines))
            res = validate_trace(dict(dir=d, trace=tf, ptype=ptype, profile="side"), max_rounds=4)
            r["side_rejections"] = res["rejections"]
            r["side_lines_ok"] = res["lines_ok"]
            shutil.rmtree(d, ignore_errors=True)
        os.remove(side)
    return r


# ---------------------------------------------------------------------------------------------
# trace validation (implementation -> specification)
# ---------------------------------------------------------------------------------------------
TRACE_JAVA = ["java", "-XX:+UseParallelGC", "-Xmx3g", "-Xss1g", "-Dtlc2.tool.queue.IStateQueue=StateDeque",
              "-cp", JAVA_CP, "tlc2.TLC", "-workers", "1"]


def _trace_dir(tag):
    d = os.path.join(WORK, "tv_" + tag)
    shutil.rmtree(d, ignore_errors=True)
    os.makedirs(d)
    for f in os.listdir(SPEC):
        if f.endswith(".tla"):
            shutil.copy(os.path.join(SPEC, f), d)
    open(os.path.join(d, "TV.tla"), "w").write("---- MODULE TV ----\nEXTENDS TraceV\n====\n")
    open(os.path.join(d, "TV.cfg"), "w").write("INIT Init\nNEXT Next\nCONSTRAINT Track\nPOSTCONDITION Accepted\nCHECK_DEADLOCK FALSE\n")
    open(os.path.join(d, "TD.tla"), "w").write("---- MODULE TD ----\nEXTENDS TraceV\n====\n")
    open(os.path.join(d, "TD.cfg"), "w").write("INIT Init\nNEXT DiagNext\nCHECK_DEADLOCK FALSE\n")
    return d


def record_trace(binpath, tag, ptype, profile, runs, events, sd, timeout=1800):
    d = _trace_dir(tag)
    tf = os.path.join(d, "trace.ndjson")
    cmd = [binpath, "trace", "--type", ptype, "--seed", str(sd), "--runs", str(runs), "--events", str(events),
           "--profile", profile, "--trace", tf]
    try:
        p = subprocess.run(cmd, capture_output=True, text=True, timeout=timeout)
    except subprocess.TimeoutExpired:
        raise ToolError(f"trace driver {ptype}/{profile} did not finish within {timeout}s")
    if p.returncode == 3:
        dv = json.loads(p.stdout.strip().split("\n")[-1])
        return dict(dir=d, trace=tf, diverged=True, event=dv.get("event"), ptype=ptype, profile=profile)
    if p.returncode != 0:
        raise ToolError(f"trace driver failed rc={p.returncode}: {p.stderr[-1500:]}")
    info = json.loads(p.stdout.strip().split("\n")[-1])
    info.update(dir=d, trace=tf, profile=profile)
    return info


def _tlc_trace(d, cfg, trace_file, env_extra=None, timeout=900):
    env = dict(os.environ, TRACE=trace_file)
    env.pop("JAVA_TOOL_OPTIONS", None)
    if env_extra:
        env.update(env_extra)
    cmd = TRACE_JAVA + ["-metadir", os.path.join(d, "md_" + cfg), "-cleanup", "-noGenerateSpecTE", "-config", cfg + ".cfg", cfg + ".tla"]
    try:
        p = subprocess.run(cmd, cwd=d, env=env, capture_output=True, text=True, timeout=timeout)
    except subprocess.TimeoutExpired:
        raise ToolError("TLC trace validation timed out")
    return p.stdout


def validate_trace(info, max_rounds=6):
    """Validate a recorded trace. Returns dict(lines_ok, rejections=[{line, event, expected}], rounds)."""
    d, tf = info["dir"], info["trace"]
    lines = open(tf).read().split("\n")
    if lines and lines[-1] == "":
        lines.pop()
    res = dict(lines=len(lines), lines_ok=0, rejections=[], ptype=info.get("ptype"), profile=info.get("profile"))
    cur = lines
    rounds = 0
    def cut_after(cur, k):
        """lines to continue with after line k (1-based) was rejected"""
        nxt = next((i for i in range(k, len(cur)) if json.loads(cur[i]).get("a") == "Reset"), None)
        end = nxt if nxt is not None else len(cur)
        keep = []
        for i in range(k, end):
            e = json.loads(cur[i])
            if e.get("a") == "Obs":
                e["nolen"] = True
                e.pop("sr", None)      # the specification no longer follows this run: no state to relate to
                keep.append(json.dumps(e))
        return keep + (cur[nxt:] if nxt is not None else [])

    while cur and rounds < max_rounds:
        rounds += 1
        # harness-detected inconsistencies first
        mk = next((i for i, ln in enumerate(cur) if any(('"' + m + '"') in ln for m in MARKERS)), None)
        if mk is not None:
            ev = json.loads(cur[mk])
            start = max([i for i in range(mk + 1) if json.loads(cur[i]).get("a") == "Reset"] or [0])
            marker = next(m for m in MARKERS if ('"' + m + '"') in cur[mk])
            res["rejections"].append(dict(line=mk + 1, event=ev, marker=marker, expected=None,
                                          steps=[json.loads(x) for x in cur[start:mk]][-60:]))
            # validate what precedes it, then continue behind it
            head = cur[:mk]
            cur = cut_after(cur, mk + 1)
            if not head:
                continue
            part = os.path.join(d, f"part{rounds}h.ndjson")
            open(part, "w").write("\n".join(head) + "\n")
            out = _tlc_trace(d, "TV", part)
            if "No error has been found" in out:
                res["lines_ok"] += len(head)
            continue
        part = os.path.join(d, f"part{rounds}.ndjson")
        open(part, "w").write("\n".join(cur) + "\n")
        out = _tlc_trace(d, "TV", part)
        if "No error has been found" in out:
            res["lines_ok"] += len(cur)
            break
        m = re.search(r'TRACE-REJECTED-AT-LINE", (\d+), "OF", (\d+)', out)
        if not m:
            raise ToolError("trace validation failed without a verdict:\n" + out[-3000:])
        k = int(m.group(1))
        res["lines_ok"] += k - 1
        # diagnose: what does the specification expect for line k?
        dout = _tlc_trace(d, "TD", part, env_extra={"DIAG": str(k)})
        exp = None
        for ln in dout.split("\n"):
            if ln.startswith('"{'):
                try:
                    exp = json.loads(json.loads(ln))["expected"]
                except Exception:
                    pass
        ev = json.loads(cur[k - 1])
        # the steps of this run up to the rejected line (for the replay file)
        start = max(i for i in range(k) if json.loads(cur[i]).get("a") == "Reset") if any(
            json.loads(cur[i]).get("a") == "Reset" for i in range(k)) else 0
        res["rejections"].append(dict(line=k, event=ev, expected=exp, steps=[json.loads(x) for x in cur[start:k - 1]],
                                      diag_tail=None if exp is not None else dout[-1500:]))
        # resynchronise at the next Reset; the observation-relative lines of the abandoned run are
        # self-contained and stay in (without the len facet, whose drift bookkeeping is lost)
        cur = cut_after(cur, k)
    res["rounds"] = rounds
    return res


def alg_check(binpath, ptype, mode, sd, max_tw=3):
    """C17: log evaluations of the real Prefix operations and validate them against Bits.tla / AlgV.tla."""
    d = os.path.join(WORK, f"av_{ptype}")
    shutil.rmtree(d, ignore_errors=True)
    os.makedirs(d)
    for f in os.listdir(SPEC):
        if f.endswith(".tla"):
            shutil.copy(os.path.join(SPEC, f), d)
    open(os.path.join(d, "AV.tla"), "w").write(f"---- MODULE AV ----\nEXTENDS AlgV\nc_MaxTW == {max_tw}\n====\n")
    open(os.path.join(d, "AV.cfg"), "w").write("CONSTANTS MaxTW <- c_MaxTW\nINIT Init\nNEXT Next\nCONSTRAINT Track\nPOSTCONDITION Accepted\nCHECK_DEADLOCK FALSE\n")
    tf = os.path.join(d, "alg.ndjson")
    p = subprocess.run([binpath, "alg", "--type", ptype, "--seed", str(sd), "--mode", mode, "--trace", tf],
                       capture_output=True, text=True, timeout=1800)
    if p.returncode != 0:
        raise ToolError(f"alg driver failed: {p.stderr[-1500:]}")
    info = json.loads(p.stdout.strip().split("\n")[-1])
    env = dict(os.environ, TRACE=tf)
    env.pop("JAVA_TOOL_OPTIONS", None)
    cmd = TRACE_JAVA + ["-metadir", os.path.join(d, "md"), "-cleanup", "-noGenerateSpecTE", "-config", "AV.cfg", "AV.tla"]
    out = subprocess.run(cmd, cwd=d, env=env, capture_output=True, text=True, timeout=1800).stdout
    info["accepted"] = "No error has been found" in out
    info["rejected_line"] = None
    if not info["accepted"]:
        m = re.search(r'TRACE-REJECTED-AT-LINE", (\d+), "OF", (\d+)', out)
        if not m:
            raise ToolError("AlgV validation failed without a verdict:\n" + out[-2000:])
        k = int(m.group(1))
        with open(tf) as f:
            for i, ln in enumerate(f, 1):
                if i == k:
                    info["rejected_line"] = json.loads(ln)
                    break
        info["lines_ok"] = k - 1
    else:
        info["lines_ok"] = info["lines"]
    with open(tf) as f:
        info["sample"] = json.loads(f.readline())
    shutil.rmtree(d, ignore_errors=True)
    return info


def sched_check(binpath, ptype, sd, runs):
    """C14: logs of real threads writing through disjoint views, validated against Sched.tla."""
    d = os.path.join(WORK, f"sv_{ptype}")
    shutil.rmtree(d, ignore_errors=True)
    os.makedirs(d)
    for f in os.listdir(SPEC):
        if f.endswith(".tla"):
            shutil.copy(os.path.join(SPEC, f), d)
    open(os.path.join(d, "SV.tla"), "w").write('---- MODULE SV ----\nEXTENDS Sched\nc_R == <<<<"a">>, <<"b">>>>\n====\n')
    open(os.path.join(d, "SV.cfg"), "w").write("CONSTANTS Regions <- c_R\nINIT InitT\nNEXT NextT\nCONSTRAINT TrackT\nPOSTCONDITION AcceptedT\nCHECK_DEADLOCK FALSE\n")
    tf = os.path.join(d, "sched.ndjson")
    p = subprocess.run([binpath, "sched", "--type", ptype, "--seed", str(sd), "--runs", str(runs), "--trace", tf],
                       capture_output=True, text=True, timeout=900)
    if p.returncode != 0:
        raise ToolError(f"sched driver failed: {p.stderr[-1500:]}")
    info = json.loads(p.stdout.strip().split("\n")[-1])
    env = dict(os.environ, TRACE=tf)
    env.pop("JAVA_TOOL_OPTIONS", None)
    cmd = TRACE_JAVA + ["-metadir", os.path.join(d, "md"), "-cleanup", "-noGenerateSpecTE", "-config", "SV.cfg", "SV.tla"]
    out = subprocess.run(cmd, cwd=d, env=env, capture_output=True, text=True, timeout=900).stdout
    info["accepted"] = "No error has been found" in out
    info["lines_ok"] = info["lines"]
    if not info["accepted"]:
        m = re.search(r'TRACE-REJECTED-AT-LINE", (\d+), "OF", (\d+)', out)
        if not m:
            raise ToolError("Sched validation failed without a verdict:\n" + out[-2000:])
        k = int(m.group(1))
        info["lines_ok"] = k - 1
        with open(tf) as f:
            for i, ln in enumerate(f, 1):
                if i == k:
                    info["rejected_line"] = json.loads(ln)
    with open(tf) as f:
        f.readline()
        info["sample"] = json.loads(f.readline())
    shutil.rmtree(d, ignore_errors=True)
    return info


def apalache_accounting():
    """C16 for unbounded histories: the inductive invariant of spec/Accounting.tla, discharged by Apalache
    (the arena machine's refinement of that abstraction is the step property PropAcct of MC.tla)."""
    d = os.path.join(WORK, "apalache_acct")
    shutil.rmtree(d, ignore_errors=True)
    os.makedirs(d)
    shutil.copy(os.path.join(SPEC, "Accounting.tla"), d)
    out = {}
    for name, args in (("base", ["--init=Init", "--inv=Inv", "--length=0"]), ("step", ["--init=IndInit", "--inv=Inv", "--length=1"])):
        try:
            p = subprocess.run(["apalache-mc", "check"] + args + ["Accounting.tla"], cwd=d, capture_output=True, text=True, timeout=600)
            out[name] = "ok" if "EXITCODE: OK" in p.stdout else "failed: " + p.stdout[-300:]
        except Exception as e:  # optional extra: never turns into a violation
            out[name] = f"not run ({e})"
    shutil.rmtree(d, ignore_errors=True)
    if any(str(v).startswith("failed") for v in out.values()):
        raise ToolError(f"the inductive invariant of Accounting.tla is not inductive: {out}")
    out["meaning"] = "nslots = ntree + nfree and nslots = high-water mark of nodes hold in every reachable state of the counter abstraction, for histories of any length"
    return out


def alg_laws(max_tw=3):
    """TLC checks the laws of Bits.tla exhaustively for all widths up to max_tw."""
    d = os.path.join(WORK, "av_laws")
    shutil.rmtree(d, ignore_errors=True)
    os.makedirs(d)
    for f in os.listdir(SPEC):
        if f.endswith(".tla"):
            shutil.copy(os.path.join(SPEC, f), d)
    open(os.path.join(d, "AL.tla"), "w").write(f"---- MODULE AL ----\nEXTENDS AlgV\nc_MaxTW == {max_tw}\n====\n")
    open(os.path.join(d, "AL.cfg"), "w").write("CONSTANTS MaxTW <- c_MaxTW\nINIT LawInit\nNEXT LawNext\nCHECK_DEADLOCK FALSE\n")
    open(os.path.join(d, "empty.ndjson"), "w").write('{"a":"none"}\n')
    env = dict(os.environ, TRACE=os.path.join(d, "empty.ndjson"))
    env.pop("JAVA_TOOL_OPTIONS", None)
    cmd = TRACE_JAVA + ["-metadir", os.path.join(d, "md"), "-cleanup", "-noGenerateSpecTE", "-config", "AL.cfg", "AL.tla"]
    t0 = time.time()
    out = subprocess.run(cmd, cwd=d, env=env, capture_output=True, text=True, timeout=1800).stdout
    ok = "No error has been found" in out
    shutil.rmtree(d, ignore_errors=True)
    if not ok:
        raise ToolError("the laws of Bits.tla fail: " + out[-1500:])
    n = sum(2 * (2 ** (k + 1) - 1) for k in range(1, max_tw + 1))
    return dict(max_tw=max_tw, prefixes_in_universes=n, wall=round(time.time() - t0, 1))


OBS_FACETS = {"get": "Get", "kv": "GetKV", "has": "Contains", "lpm": "Lpm", "spm": "Spm", "cover": "Cover", "children": "Children",
              "lpmp": "Lpm", "spmp": "Spm", "ck": "Cover", "cv": "Cover"}
# inconsistencies the harness detects itself (twin APIs that disagree, runaway iteration); a line carrying
# one is a disagreement by itself and must not reach TLC (mixed types cannot be compared there)
MARKERS = ["SET-DIFFERS", "VARIANTS-DIFFER", "ITER-KINDS-DIFFER", "KIND-VACANT", "KIND-OCCUPIED", "MUT-DIFFERS", "LEFT-DIFFERS", "VIEW_AT-DIFFERS", "EQ-INCONSISTENT", "DEPTH", "EXTRA",
           "DIVERGED", "keys_values_differ", "prefix_value_differs", "as_view_differs", "has_side_differs", "accessors_differ"]


def trace_mismatches(rej):
    """Turn one rejected trace line into mismatch records (kind, e, expected, got) for owners()."""
    ev, exp = rej["event"], rej["expected"]
    out = []
    if rej.get("marker"):
        e = ev if ev.get("a") != "Obs" else {"a": "Iter"}
        return [dict(h=rej["steps"][-30:], line=rej["line"], kind="ret", e=e, expected="twin observers agree / traversal is finite",
                     got=rej["marker"])]
    if exp is None:
        raise ToolError("could not diagnose rejected trace line: " + str(rej.get("diag_tail")))
    base = dict(h=rej["steps"][-30:], hfull=rej["steps"], line=rej["line"])
    if exp["kind"] == "map":
        if exp["pan"] != ev.get("pan"):
            out.append(dict(base, kind="pan", e=ev, expected=exp["pan"], got=ev.get("pan")))
        elif not _ret_matches(ev, exp["ret"], ev.get("ret")):
            out.append(dict(base, kind="ret", e=ev, expected=exp["ret"], got=ev.get("ret")))
        same_shape = "t" not in ev or tree_shape(exp["t"]) == tree_shape(ev["t"])
        same_entries = "t" not in ev or len(tree_entries(exp["t"])) == len(tree_entries(ev["t"]))
        if "x" in ev:
            for i, k in enumerate(("alen", "nfree", "count")):
                differs = (ev["x"][0] > exp["x"][0]) if k == "alen" else \
                          (ev["x"][0] == exp["x"][0] and ev["x"][1] != exp["x"][1]) if k == "nfree" else \
                          ev["x"][2] not in (exp["x"][2], exp["x"][2] - exp.get("dr", 0))
                if differs and (same_entries if k == "count" else same_shape):
                    out.append(dict(base, kind=k, e=ev, expected=exp["x"][i], got=ev["x"][i]))
        if "t" in ev:
            w = tree_wf(ev["t"])
            if w:
                out.append(dict(base, kind="wf", e=ev, expected="well-formed trie", got=w))
        base = dict(base, row=dict(cn=exp.get("cn"), keeps=exp.get("keeps")))
        if "t" in ev and exp["t"] != ev["t"]:
            ee, eg = tree_entries(exp["t"]), tree_entries(ev["t"])
            if ee != eg:
                out.append(dict(base, kind="entries", e=ev, expected=ee, got=eg))
            if tree_shape(exp["t"]) != tree_shape(ev["t"]):
                out.append(dict(base, kind="shape", e=ev, expected=tree_shape(exp["t"]), got=tree_shape(ev["t"])))
            elif ee == eg:
                out.append(dict(base, kind="tree", e=ev, expected=exp["t"], got=ev["t"]))
        if not out:
            raise ToolError(f"trace line {rej['line']} rejected although every logged field matches: the specification's "
                            f"self-checks failed (wf={exp.get('wf')}, partition={exp.get('partition')}, absok={exp.get('absok')})")
    elif exp["kind"] == "obs":
        sweep = exp["iter"]            # the exact-match sweep, sorted by the specification
        if not exp.get("ascending", True):
            out.append(dict(base, kind="ret", e={"a": "Iter"}, expected="strictly ascending, each entry once", got=ev["iter"]))
        elif exp.get("hasState"):
            st = exp["stateE"]
            if sweep != st:            # the contents are not what the history must have produced
                out.append(dict(base, kind="ret", e={"a": "Get", "E": ev["E"]}, expected=st, got=sweep))
            if ev["iter"] != st and sweep == st:   # contents right, iteration wrong
                out.append(dict(base, kind="ret", e={"a": "Iter"}, expected=st, got=ev["iter"]))
            elif ev["iter"] != sweep and sweep != st and ev["iter"] != st:
                pass                    # both differ from the expected contents: the contents' owner (C01) reports
        elif sweep != ev["iter"] or len(ev["E"]) != len(sweep):
            # iteration and exact-match lookups disagree and nothing says who is right: not attributed
            out.append(dict(base, kind="ret", e={"a": "IterVsSweep"}, expected=sweep, got=ev["iter"]))
        if exp["len"] != ev["len"] or ev["empty"] != (ev["len"] == 0):
            out.append(dict(base, kind="len_vs_iter", e={"a": "Len"}, expected=exp["len"], got=[ev["len"], ev["empty"]]))
        for qe, qg in zip(exp["qs"], ev["qs"]):
            for f, act in OBS_FACETS.items():
                if qe[f] != qg[f]:
                    out.append(dict(base, kind="ret", e={"a": act, "p": qg["q"], "E": ev["E"]}, expected=qe[f], got=qg[f]))
        if exp.get("twf") is False:
            out.append(dict(base, kind="wf", e={"a": "Obs"}, expected="well-formed trie", got=tree_wf(ev.get("t")) or "ill-formed"))
        for i, ok in enumerate(exp.get("vdok", [])):
            if not ok:
                out.append(dict(base, kind="ret", e={"a": "ViewDesc", "p": ev["vd"][i]["q"], "E": ev["E"]},
                                expected="a view addressing exactly the entries under q (ViewAtOK)", got=ev["vd"][i]["d"]))
        for i, ok in enumerate(exp.get("fdok", [])):
            if not ok:
                f = ev["fd"][i]
                out.append(dict(base, kind="ret", e={"a": "Find", "p": f["q0"], "q": f["q"], "kind": f["kind"], "E": ev["E"]},
                                expected="a view addressing exactly the entries of the searched view selected by q", got=f["r"]))
        if not out:
            raise ToolError(f"Obs line {rej['line']} rejected although every facet matches")
    elif exp["kind"] == "pair":
        if exp["ret"] != ev.get("ret") or ev.get("pan"):
            out.append(dict(base, kind="pan" if ev.get("pan") else "ret", e=ev, expected=exp["ret"], got=ev.get("ret")))
        else:
            raise ToolError(f"pair line {rej['line']}: the code agrees with the machine but the abstract judgement fails (specification bug)")
    return out


def _ret_matches(ev, mine, logged):
    """the relaxations of TraceV!RetMatches"""
    try:
        if ev.get("a") == "Retain" and not ev.get("pan"):
            return sorted(json.dumps(x, sort_keys=True) for x in mine) == sorted(json.dumps(x, sort_keys=True) for x in logged)
        if ev.get("a") == "Len" and mine != logged:
            return True        # TraceV accepted neither the drifted nor the true value: reported through exp below
        if ev.get("a") == "Find" and ev.get("kind") == "find" and len(ev["q"]["n"]) < len(ev["p"]["n"]):
            if len(mine) != len(logged):
                return False
            return not mine or (mine[0]["ok"] == logged[0]["ok"] and mine[0]["d"]["it"] == logged[0]["d"]["it"])
    except Exception:
        return False
    return mine == logged


def tree_wf(t):
    """C15 on an observed tree (same rule as harness/src/replay.rs:tree_wf)"""
    if not t:
        return None
    if len(t) < 5:
        return "deeper than width + 1 / more nodes than slots"
    if t[0] != []:
        return "the root is not the zero-length prefix"

    def go(t):
        if not t:
            return None
        if len(t) < 5:
            return "deeper than width + 1 / more nodes than slots"
        pn = t[0]
        for side, c in ((0, t[3]), (1, t[4])):
            if not c:
                continue
            if len(c) < 5:
                return "deeper than width + 1 / more nodes than slots"
            cn = c[0]
            if len(cn) <= len(pn) or cn[:len(pn)] != pn:
                return f"child {cn} is not strictly below its parent {pn}"
            if cn[len(pn)] != side:
                return f"child {cn} hangs on the wrong side of {pn}"
            e = go(c)
            if e:
                return e
        return None
    return go(t)


def tree_entries(t):
    if not t or len(t) < 5:
        return []
    me = [[t[0], t[1], t[2]]] if t[2] != -1 else []
    return me + tree_entries(t[3]) + tree_entries(t[4])


def tree_shape(t):
    if not t or len(t) < 5:
        return []
    return [t[0], tree_shape(t[3]), tree_shape(t[4])]


# ---------------------------------------------------------------------------------------------
# ownership of disagreements
# ---------------------------------------------------------------------------------------------
RET_OWNER = {
    "Insert": "C01", "Remove": "C01", "RemoveKeepTree": "C01", "Clear": "C01", "Get": "C01", "GetKV": "C01",
    "Contains": "C01", "Lpm": "C02", "Iter": "C03", "Len": "C04", "Spm": "C09", "Cover": "C09",
    "Children": "C10", "Retain": "C10", "RemoveChildren": "C10", "PathReplay": "C01",
    "ViewDesc": "C11", "Find": "C12", "ViewSet": "C01", "ViewRemove": "C01", "ViewValueMut": "C13", "ViewIterMut": "C13",
    "IterVsSweep": "unattributed", "SplitOp": "C06", "Misc": "C20", "CloneCheck": "C19", "Collect": "C19", "Serde": "C19", "Alias": "C14",
    "Entry": "C01", "GetMut": "C01", "LpmMut": "C02", "IterMut": "C03", "ValuesMut": "C03", "ChildrenMut": "C10",
}
MUT_TRAVERSALS = {"GetMut", "LpmMut", "IterMut", "ValuesMut", "ChildrenMut", "ViewValueMut", "ViewIterMut"}


PAIR_OWNER = {"Union": "C05", "UnionMut": "C05", "Inter": "C06", "InterMut": "C06", "Diff": "C07", "DiffMut": "C07",
              "CovDiff": "C07", "CovDiffMut": "C07", "Eq": "C19", "PairWrite": "C13"}


def _core_items(act, ret):
    """the part of a set-operation result that the selection property owns (no LPM annotations)"""
    try:
        items = ret[0]
        if act == "Union":
            out = []
            for it in items:
                own_l = it["l"][0]["v"] if it["k"] in ("L", "B") else None
                own_r = it["r"][0]["v"] if it["k"] in ("R", "B") else None
                out.append([it["k"], it["p"]["n"], own_l, own_r])
            return out
        if act in ("Diff", "DiffMut"):
            return [[it["p"]["n"], it["v"]] for it in items]
    except Exception:
        return None
    return None


def pair_owners(mm):
    act = mm["e"].get("a", "?")
    o = set()
    if mm["kind"] in ("pan", "diverged"):
        return {"C20", PAIR_OWNER.get(act, "C05")}
    base = PAIR_OWNER.get(act, "C05")
    if act in ("Union", "Diff", "DiffMut"):
        ce, cg = _core_items(act, mm.get("expected")), _core_items(act, mm.get("got"))
        if ce is not None and cg is not None and ce == cg:
            o.add("C08")          # only the LPM annotations (or representations) differ
        else:
            o.add(base)
    else:
        o.add(base)
    if act.endswith("Mut"):
        o.add("C13")
    if act == "PairWrite":
        return {"C13"}
    return o


def has_nonzero_host(v):
    if isinstance(v, dict):
        if "n" in v and "h" in v and v["h"] != "0":
            return True
        return any(has_nonzero_host(x) for x in v.values())
    if isinstance(v, list):
        return any(has_nonzero_host(x) for x in v)
    return False


def _host_diff_keys(exp, got, out):
    """keys (bit tuples) at which two values of the same structure differ in the host token only"""
    if isinstance(exp, dict) and isinstance(got, dict):
        if "n" in exp and "h" in exp and "n" in got and exp.get("h") != got.get("h"):
            out.add(tuple(exp["n"]))
        for k in exp:
            if k in got and not (k == "h" and "n" in exp):
                _host_diff_keys(exp[k], got[k], out)
    elif isinstance(exp, list) and isinstance(got, list) and len(exp) == len(got):
        if len(exp) in (3, 5) and isinstance(exp[0], list) and isinstance(exp[1], str) and isinstance(got[1], str) \
                and (len(exp) == 5 or not isinstance(exp[2], (list, dict))):
            if exp[1] != got[1]:
                out.add(tuple(exp[0]))
            for a, b in zip(exp[3:], got[3:]):
                _host_diff_keys(a, b, out)
        else:
            for a, b in zip(exp, got):
                _host_diff_keys(a, b, out)


INSERTING_OPS = {"insert", "o_insert"}
FILLING_OPS = {"v_insert", "v_insert_with", "or_insert", "or_insert_with", "or_default", "v_default", "insert_with", "default"}


def user_chosen_keys(history, which=None):
    """Keys whose stored representation C18 fixes at the end of `history` (list of events): those whose entry
    was last written by a call that passes a prefix.  Value-less nodes, and entries that TrieViewMut::set
    created on a value-less node ("keep that node's existing prefix"), carry a prefix the property leaves open."""
    user, stored = set(), set()          # stored: keys that hold an entry (user-chosen or created by a view's set())
    for e in history:
        a = e.get("a")
        if a == "Reset":
            user, stored = set(), set()
            continue
        if which is not None and e.get("m", "A") != which:
            continue
        n = tuple(e["p"]["n"]) if isinstance(e.get("p"), dict) and "n" in e["p"] else None
        if a == "Insert":
            user.add(n), stored.add(n)
        elif a in ("Remove", "RemoveKeepTree", "ViewRemove"):
            user.discard(n), stored.discard(n)
        elif a == "Clear":
            user, stored = set(), set()
        elif a == "RemoveChildren":
            user = {k for k in user if k[:len(n)] != n}
            stored = {k for k in stored if k[:len(n)] != n}
        elif a == "Retain" and not e.get("panicAt") and not e.get("pan"):
            keep = {tuple(k) for k in e.get("keep", [])}
            user = {k for k in user if k in keep}
            stored = {k for k in stored if k in keep}
        elif a == "Entry":
            for op in e.get("ops", []):
                if op.get("v") == -2:
                    break                       # the closure panics: the session ends here
                o = op.get("o")
                if o in INSERTING_OPS or (o in FILLING_OPS and n not in stored):
                    user.add(n), stored.add(n)  # the passed prefix is stored
                elif o == "o_remove":
                    user.discard(n), stored.discard(n)
        elif a == "ViewSet":
            # on an occupied node the prefix stays (user-chosen stays user-chosen); on a value-less node the new
            # entry keeps the node's prefix, which the property leaves open.  (Without a logged result the call is
            # assumed to have succeeded: errs towards "open", never towards an alarm.)
            ret = e.get("ret")
            if not (isinstance(ret, list) and ret and isinstance(ret[0], dict) and ret[0].get("ok") == 0):
                stored.add(n)
    return user


def host_only_unspecified(mm):
    """A host-only disagreement is binding for C18 only if some differing token belongs to an entry whose
    representation the property fixes."""
    keys = set()
    _host_diff_keys(mm.get("expected"), mm.get("got"), keys)
    if not keys:
        return False
    hist = list(mm.get("hfull") or mm.get("h") or [])
    ev = mm.get("e") or {}
    which = ev.get("m") if isinstance(ev, dict) else None
    if isinstance(ev, dict) and ev.get("a") not in (None, "PathReplay", "Get", "Iter", "Obs"):
        hist = hist + [ev]
    if not all(isinstance(x, dict) for x in hist):
        return False
    user = user_chosen_keys(hist, which)
    return not (keys & user)



def strip_hosts(v):
    """remove every host token: objects {"n","h"} lose h; canonical trees [n,h,v,l,r] lose position 1"""
    if isinstance(v, dict):
        return {k: strip_hosts(x) for k, x in v.items() if not (k == "h" and "n" in v)}
    if isinstance(v, list):
        if len(v) == 5 and isinstance(v[1], str) and isinstance(v[0], list) and isinstance(v[3], list) and isinstance(v[4], list):
            return [v[0], v[2], strip_hosts(v[3]), strip_hosts(v[4])]
        if len(v) == 3 and isinstance(v[1], str) and isinstance(v[0], list) and not isinstance(v[2], (list, dict)):
            return [v[0], v[2]]
        return [strip_hosts(x) for x in v]
    return v


def owners(mm):
    """Set of properties that own mismatch record `mm` (kind, event)."""
    kind = mm["kind"]
    act = mm["e"].get("a", "?")
    # a disagreement that vanishes when host bits are ignored is about the stored representation
    if kind in ("ret", "entries", "tree", "pre") and mm.get("expected") != mm.get("got") \
            and strip_hosts(mm.get("expected")) == strip_hosts(mm.get("got")):
        # ... of entries whose representation the property fixes (not of value-less nodes, nor of entries that
        # TrieViewMut::set created on a value-less node)
        return {"C18-nonbinding"} if host_only_unspecified(mm) else {"C18"}
    if act in PAIR_OWNER:
        return pair_owners(mm)
    # a callback panicked (injected fault): whatever is wrong afterwards is C20's concern as well
    faulty = (act == "Retain" and mm["e"].get("panicAt", 0) > 0) or \
             (act == "Entry" and any(o.get("v") == -2 for o in mm["e"].get("ops", [])))
    if faulty and kind != "diverged":
        return owners_plain(mm) | {"C20"}
    return owners_plain(mm)


def owners_plain(mm):
    kind = mm["kind"]
    act = mm["e"].get("a", "?")
    if act == "SplitOp" and kind == "ret":
        return {{"Union": "C05", "Inter": "C06", "Diff": "C07", "CovDiff": "C07"}.get(mm["e"].get("op"), "C06")}
    if kind == "pre":
        # the path to the row's state did not reproduce it: blame by what differs
        try:
            exp, got = mm["expected"], mm["got"]
            if exp["t"] == got["t"]:
                o = set()
                if got["x"][0] > exp["x"][0] or (got["x"][0] == exp["x"][0] and got["x"][1] != exp["x"][1]):
                    o.add("C16")
                if got["x"][2] not in (exp["x"][2], exp["x"][2] - (mm.get("row") or {}).get("dr", 0)):
                    o.add("C04")
                return o or {"C01"}
            if tree_entries(exp["t"]) == tree_entries(got["t"]):
                # the shape is fixed by the property only for histories of insert / remove / retain / clear
                return {"C15"} if (mm.get("row") or {}).get("cn") else {"C15-nonbinding"}
        except Exception:
            pass
        return {"C01"}
    if kind == "ret" and act == "ViewSet" and '"kept": 0' in json.dumps(mm.get("got")):
        return {"C18"}            # set() changed the prefix of the node it wrote to
    if kind == "ret":
        o = {RET_OWNER.get(act, "C01")}
        if act == "Find" and mm["e"].get("kind") == "find":
            o.add("C11")          # view_at on a view equals find (C11 fixes prefix(), value() and the sides)
        if act in MUT_TRAVERSALS:
            o.add("C13")
        return o
    if kind in ("pan", "diverged"):
        return {"C20", RET_OWNER.get(act, "C01")}
    if kind == "entries":
        o = {"C01"}
        if act in ("RemoveChildren", "Retain"):
            o.add("C10")
        if act in MUT_TRAVERSALS:
            o.add("C13")
        # only host tokens differ -> the stored representation (C18)
        try:
            e1 = [[x[0], x[2]] for x in mm["expected"]]
            e2 = [[x[0], x[2]] for x in mm["got"]]
            if e1 == e2:
                o = {"C18"}
        except Exception:
            pass
        return o
    if kind == "shape":
        # the property fixes the shape only for histories of insert / remove / retain / clear (and for
        # value-only operations, which must not change it); elsewhere a different well-formed shape is legal
        row = mm.get("row") or {}
        if row.get("cn") or row.get("keeps"):
            return {"C15"}
        return {"C15-nonbinding"}
    if kind in ("wf", "shape_changed"):
        return {"C15"}
    if kind == "grow":
        return {"C16"}
    if kind == "tree":
        return {"C18"}
    if kind in ("alen", "nfree", "partition"):
        return {"C16"}
    if kind in ("count", "len_vs_iter"):
        return {"C04"}
    return {"C01"}


# ---------------------------------------------------------------------------------------------
# evidence / replay files
# ---------------------------------------------------------------------------------------------
def write_replay(prop, rec):
    os.makedirs(REPLAYS, exist_ok=True)
    body = json.dumps(rec, sort_keys=True)
    name = f"{prop}_{hashlib.sha256(body.encode()).hexdigest()[:10]}.json"
    path = os.path.join(REPLAYS, name)
    with open(path, "w") as f:
        json.dump(rec, f, indent=1, sort_keys=True)
    return path


def write_evidence(prop, tier, level, coverage, wall, violations, assumptions):
    os.makedirs(EVID, exist_ok=True)
    ev = dict(property_id=prop, tier=tier, seed=seed(), level=level, coverage=coverage,
              assumptions=assumptions, wall_s=round(wall, 1), violations=violations)
    with open(os.path.join(EVID, prop + ".json"), "w") as f:
        json.dump(ev, f, indent=1)


def load_known_findings():
    p = os.path.join(VERIF, "known_findings.json")
    if not os.path.exists(p):
        return []
    return json.load(open(p))
