#!/bin/sh
# usage: mutant.sh <patchfile|REVERT:commit> <prop> [prop...]  -- apply to /repo, run quick checks, restore
P=$1; shift
cd /repo || exit 2
if [ -n "$(git status --porcelain --untracked-files=no)" ]; then echo "repo dirty"; exit 2; fi
case "$P" in
  REVERT:*) git show "${P#REVERT:}" | git apply -R || exit 2;;
  *) git apply "$P" || exit 2;;
esac
for prop in "$@"; do
  (cd /verif && timeout 1200 ./check $prop quick 2>&1 | grep -E "^(VIOLATION|OK|TOOL-ERROR|KNOWN)" | head -4 | sed "s/^/[$prop] /")
done
git -C /repo checkout -- .
