#!/usr/bin/env python3
"""Generate a TLC configuration (wrapper module + .cfg) for spec/MC.tla or other roots.

usage: mkcfg.py OUTDIR NAME ROOT key=tlaexpr ... [--inv A,B] [--prop A,B] [--view V] [--constraint C] [--action-constraint C]
Every constant is bound through a `<-` override so that arbitrary TLA+ expressions can be used.
"""
import sys, os

def gen(outdir, name, root, consts, inv=(), prop=(), view=None, constraint=None,
        action_constraint=None, init="Init", nxt="Next", postcondition=None, extra_defs=""):
    os.makedirs(outdir, exist_ok=True)
    mod = [f"---- MODULE {name} ----", f"EXTENDS {root}"]
    cfg = ["CONSTANTS"]
    for k, v in consts.items():
        mod.append(f"c_{k} == {v}")
        cfg.append(f"  {k} <- c_{k}")
    if extra_defs:
        mod.append(extra_defs)
    mod.append("====")
    cfg.append(f"INIT {init}")
    cfg.append(f"NEXT {nxt}")
    if view: cfg.append(f"VIEW {view}")
    if constraint: cfg.append(f"CONSTRAINT {constraint}")
    if action_constraint: cfg.append(f"ACTION_CONSTRAINT {action_constraint}")
    if inv: cfg.append("INVARIANTS " + " ".join(inv))
    if prop: cfg.append("PROPERTIES " + " ".join(prop))
    if postcondition: cfg.append(f"POSTCONDITION {postcondition}")
    cfg.append("CHECK_DEADLOCK FALSE")
    open(os.path.join(outdir, name + ".tla"), "w").write("\n".join(mod) + "\n")
    open(os.path.join(outdir, name + ".cfg"), "w").write("\n".join(cfg) + "\n")
    return os.path.join(outdir, name + ".tla")
