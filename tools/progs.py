#!/usr/bin/env python3
"""C14 part 2: render the programs enumerated by spec/Borrow.tla as Rust functions, ask rustc for its
verdict, and compare: a program that is not AliasFree (or a thread transfer that is not sound) must
be rejected at compile time."""
import json, os, re, subprocess, shutil, sys
import vlib
from vlib import ToolError, log

BORROWCK = {"E0382", "E0499", "E0502", "E0503", "E0505", "E0506", "E0507", "E0596", "E0597", "E0716", "E0713", "E0521", "E0594", "E0381"}

HEADER = '''#![allow(unused, dropping_references, clippy::all)]
use prefix_trie::*;
use std::hint::black_box;
type P = (u32, u8);
type M = PrefixMap<P, i32>;
fn a1() -> P { (0, 1) }
'''


def render_stmt(st, k, names, kinds):
    """returns (lines, new handle kinds)"""
    src = names[st["src"]]
    kind = kinds[st["src"]]
    if st["s"] in ("use", "use_mut"):
        mut = st["s"] == "use_mut"
        if kind == "Map":
            return [f"{src}.clear();" if mut else f"black_box({src}.len());"], []
        if kind == "ViewMut":
            return [f"if let Some(x) = {src}.value_mut() {{ *x += 1; }}" if mut else f"black_box({src}.value());"], []
        if kind == "View":
            return [f"black_box({src}.value());"], []
        if kind == "IterMut":
            return [f"black_box({src}.next());" if mut else f"black_box({src}.size_hint());"], []
        if kind == "Iter":
            return [f"black_box({src}.clone().count());"], []
        if kind == "SetMut":
            return [f"black_box({src}.next());" if mut else f"black_box({src}.size_hint());"], []
        if kind == "RefMut":
            return [f"*{src} += 1;" if mut else f"black_box(*{src});"], []
        if kind == "Ref":
            return [f"black_box(*{src});"], []
        if kind == "Entry":
            return [f"black_box({src}.get_mut());" if mut else f"black_box({src}.get());"], []
        raise ToolError("unknown kind " + kind)
    op = st["op"]
    n = len(names)
    h = f"h{n}"
    src2 = names[st["src2"]] if "src2" in st else None
    table = {
        "union_mut": (f"let mut {h} = {src}.union_mut({src2});", ["SetMut"]),
        "inter_mut": (f"let mut {h} = {src}.intersection_mut({src2});", ["SetMut"]),
        "diff_mut": (f"let mut {h} = {src}.difference_mut(&{src2});", ["SetMut"]),
        "view_mut": (f"let mut {h} = (&mut *{src}).view_mut();", ["ViewMut"]),
        "view": (f"let mut {h} = (&*{src}).view();", ["View"]),
        "iter_mut": (f"let mut {h} = {src}.iter_mut();", ["IterMut"]),
        "iter": (f"let mut {h} = {src}.iter();", ["Iter"]),
        "get_mut": (f"let mut {h} = {src}.get_mut(&a1()).unwrap();", ["RefMut"]),
        "get": (f"let mut {h} = {src}.get(&a1()).unwrap();", ["Ref"]),
        "entry": (f"let mut {h} = {src}.entry(a1());", ["Entry"]),
        "left": (f"let mut {h} = {src}.left().ok().unwrap();", ["ViewMut"]),
        "right": (f"let mut {h} = {src}.right().ok().unwrap();", ["ViewMut"]),
        "find": (f"let mut {h} = {src}.find(a1()).ok().unwrap();", ["ViewMut"]),
        "split": (f"let (l{n}, r{n}) = {src}.split(); let mut {h} = l{n}.unwrap(); let mut h{n+1} = r{n}.unwrap();", ["ViewMut", "ViewMut"]),
        "vm_iter_mut": (f"let mut {h} = {src}.iter_mut();", ["IterMut"]),
        "vm_into_iter": (f"let mut {h} = {src}.into_iter();", ["IterMut"]),
        "vm_view": (f"let mut {h} = (&{src}).view();", ["View"]),
        "vm_value_mut": (f"let mut {h} = {src}.value_mut().unwrap();", ["RefMut"]),
        "vm_value": (f"let mut {h} = {src}.value().unwrap();", ["Ref"]),
        "v_left": (f"let mut {h} = {src}.left().unwrap();", ["View"]),
        "v_iter": (f"let mut {h} = {src}.iter();", ["Iter"]),
        "next_mut": (f"let mut {h} = {src}.next().unwrap().1;", ["RefMut"]),
        "next": (f"let mut {h} = {src}.next().unwrap().1;", ["Ref"]),
    }
    line, newk = table[op]
    return [line], newk


def render_program(i, row):
    names, kinds = ["map"], ["Map"]
    body = []
    for k, st in enumerate(row["prog"]):
        lines, newk = render_stmt(st, k, names, kinds)
        body += lines
        for nk in newk:
            names.append(f"h{len(names)}")
            kinds.append(nk)
    return [f"pub fn prog_{i}(map: &mut M) {{"] + ["    " + l for l in body] + ["}"]


TYPES = {"SendSync": "i32", "SendOnly": "std::cell::Cell<i32>", "SyncOnly": "std::sync::MutexGuard<'static, i32>",
         "Neither": "std::rc::Rc<i32>"}
KINDS = {
    "PrefixMap": "PrefixMap<P, {T}>", "RefPrefixMap": "&'static PrefixMap<P, {T}>", "MutPrefixMap": "&'static mut PrefixMap<P, {T}>",
    "TrieView": "TrieView<'static, P, {T}>", "TrieViewMut": "TrieViewMut<'static, P, {T}>",
    "Iter": "map::Iter<'static, P, {T}>", "IterMut": "map::IterMut<'static, P, {T}>", "IntoIter": "map::IntoIter<P, {T}>",
    "Keys": "map::Keys<'static, P, {T}>", "Values": "map::Values<'static, P, {T}>", "ValuesMut": "map::ValuesMut<'static, P, {T}>",
    "Cover": "map::Cover<'static, 'static, P, {T}>",
    "Union": "trieview::Union<'static, P, {T}, {T}>", "UnionMut": "trieview::UnionMut<'static, P, {T}, {T}>",
    "Intersection": "trieview::Intersection<'static, P, {T}, {T}>", "IntersectionMut": "trieview::IntersectionMut<'static, P, {T}, {T}>",
    "Difference": "trieview::Difference<'static, P, {T}, {T}>", "DifferenceMut": "trieview::DifferenceMut<'static, P, {T}, {T}>",
    "CoveringDifference": "trieview::CoveringDifference<'static, P, {T}, {T}>",
    "CoveringDifferenceMut": "trieview::CoveringDifferenceMut<'static, P, {T}, {T}>",
    "Entry": "map::Entry<'static, P, {T}>",
}


def render_thread(i, row):
    ty = KINDS[row["kind"]].replace("{T}", TYPES[row["t"]])
    f = {"Send": "assert_send", "Sync": "assert_sync", "Clone": "assert_clone"}[row["check"]]
    return [f"pub fn thr_{i}() {{", f"    {f}::<{ty}>();", "}"]


def compile_batch(tag, fns):
    """fns: list of (name, lines). Returns {name: [error codes]} for the functions rustc rejected."""
    d = os.path.join(vlib.WORK, "progs_" + tag)
    shutil.rmtree(d, ignore_errors=True)
    os.makedirs(os.path.join(d, "src"))
    os.makedirs(os.path.join(d, ".cargo"))
    shutil.copy(os.path.join(vlib.REPO, "Cargo.lock"), os.path.join(d, "Cargo.lock"))
    open(os.path.join(d, "Cargo.toml"), "w").write(
        '[package]\nname = "progs"\nversion = "0.1.0"\nedition = "2021"\n[workspace]\n[dependencies]\nprefix-trie = { path = "%s", default-features = false }\n' % vlib.REPO)
    open(os.path.join(d, ".cargo", "config.toml"), "w").write('[net]\noffline = true\n[build]\ntarget-dir = "%s"\n' % os.path.join(vlib.WORK, "progs_target"))
    src = [HEADER, "fn assert_send<T: Send>() {}", "fn assert_sync<T: Sync>() {}", "fn assert_clone<T: Clone>() {}"]
    spans = []
    line = sum(s.count("\n") + 1 for s in src) - HEADER.count("\n") + HEADER.count("\n")
    text = "\n".join(src) + "\n"
    cur = text.count("\n") + 1
    for name, lines in fns:
        spans.append((name, cur, cur + len(lines) - 1))
        text += "\n".join(lines) + "\n"
        cur += len(lines)
    open(os.path.join(d, "src", "lib.rs"), "w").write(text)
    p = subprocess.run(["cargo", "check", "--offline", "--lib", "--message-format=json", "-q"], cwd=d, capture_output=True,
                       text=True, env=dict(os.environ, CARGO_NET_OFFLINE="true"), timeout=1200)
    errs = {}
    other = []
    for ln in p.stdout.split("\n"):
        if not ln.startswith("{"):
            continue
        try:
            m = json.loads(ln)
        except Exception:
            continue
        if m.get("reason") != "compiler-message":
            continue
        msg = m["message"]
        if msg.get("level") != "error":
            continue
        code = (msg.get("code") or {}).get("code")
        if code is None and "aborting due to" in msg.get("message", ""):
            continue
        ls = [sp["line_start"] for sp in msg.get("spans", []) if sp.get("is_primary")] or [sp["line_start"] for sp in msg.get("spans", [])]
        hit = False
        for l in ls:
            for name, a, b in spans:
                if a <= l <= b:
                    errs.setdefault(name, []).append(code or msg.get("message", "")[:60])
                    hit = True
        if not hit:
            other.append((code, msg.get("message", "")[:200], ls))
    if other:
        raise ToolError(f"rustc reported errors outside the generated functions: {other[:3]}")
    if p.returncode != 0 and not errs:
        raise ToolError("cargo check failed without diagnostics: " + p.stderr[-1500:])
    shutil.rmtree(d, ignore_errors=True)
    return errs


ALL_OPS = ["view_mut", "view", "iter_mut", "iter", "get_mut", "get", "entry", "left", "right", "find", "split", "vm_iter_mut",
           "vm_into_iter", "vm_view", "vm_value_mut", "vm_value", "v_left", "v_iter", "next_mut", "next"]
# the _mut set operations between two mutable views (second family of programs)
SETOP_OPS = ["view_mut", "left", "right", "split", "vm_iter_mut", "vm_view", "vm_value_mut", "vm_value", "next_mut",
             "union_mut", "inter_mut", "diff_mut"]


def enumerate_programs(max_stmts, max_creates, ops=ALL_OPS, name="c14_borrow"):
    consts = dict(MaxStmts=str(max_stmts), MaxCreates=str(max_creates), Ops="{" + ", ".join('"%s"' % o for o in ops) + "}",
                  EmitProgs="TRUE")
    r = vlib.tlc_run(name, "Borrow", consts, inv=["Sound", "EmitProg", "EmitThreads"], workers=8, timeout=900)
    if not r["ok"]:
        raise ToolError(f"Borrow.tla: {r.get('error')} (see {r['log']})")
    progs, threads = [], []
    with open(r["rows_file"]) as f:
        for ln in f:
            row = json.loads(json.loads(ln))
            if "threads" in row:
                threads = row["threads"]
            else:
                progs.append(row)
    os.remove(r["rows_file"])
    return r, progs, threads


def judge(progs, threads, batch=400, par=6):
    """compile everything; returns list of verdict dicts"""
    import concurrent.futures as cf
    items = [("prog_%d" % i, render_program(i, row), row) for i, row in enumerate(progs)]
    items += [("thr_%d" % i, render_thread(i, row), row) for i, row in enumerate(threads)]
    batches = [items[i:i + batch] for i in range(0, len(items), batch)]
    results = {}

    def run(bi):
        b = batches[bi]
        return compile_batch(f"b{bi}", [(n, l) for n, l, _ in b])

    with cf.ThreadPoolExecutor(max_workers=par) as ex:
        for errs in ex.map(run, range(len(batches))):
            results.update(errs)
    out = []
    for name, lines, row in items:
        codes = results.get(name, [])
        bad_codes = [c for c in codes if c not in BORROWCK and c != "E0277"]
        out.append(dict(name=name, src="\n".join(lines), row=row, accepted=not codes, codes=codes, foreign_codes=bad_codes))
    return out
