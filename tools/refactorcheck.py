#!/usr/bin/env python3
"""Development tool (false-alarm probe): apply behaviour-preserving refactorings (seeded_ok/<name>/patch.diff) in
scratch lanes and run ALL quick checks against each; any VIOLATION is a false alarm of the machinery (or the
refactoring is not behaviour-preserving after all - to be decided by reading the counterexample).
usage: refactorcheck.py <lanes> <name> [<name> ...]"""
import json, os, queue, subprocess, sys, threading, shutil, hashlib

VERIF = os.path.dirname(os.path.dirname(os.path.abspath(__file__)))
lanes = int(sys.argv[1])
PROPS = ["C%02d" % i for i in range(1, 21)]
names, q = [], queue.Queue()
for a in sys.argv[2:]:          # <name> or <name>:C01,C04,... (subset of properties)
    n, _, sel = a.partition(":")
    names.append(n)
    for p in (sel.split(",") if sel else PROPS):
        q.put((n, p))
results = {n: {} for n in names}
lock = threading.Lock()


def lane(i):
    wt = f"/tmp/{os.environ.get('RLANE', 'rlane')}{i}"
    subprocess.run(["git", "-C", "/repo", "worktree", "remove", "--force", wt], capture_output=True)
    subprocess.run(["git", "-C", "/repo", "worktree", "add", "--detach", wt, "HEAD", "-q"], check=True, capture_output=True)
    shutil.copy("/repo/Cargo.lock", wt)
    env = dict(os.environ, VERIF_REPO=wt)
    cur = None
    while True:
        try:
            n, p = q.get_nowait()
        except queue.Empty:
            break
        if cur != n:
            subprocess.run(["git", "-C", wt, "checkout", "--", "."], capture_output=True)
            r = subprocess.run(["git", "-C", wt, "apply", os.path.join(VERIF, "seeded_ok", n, "patch.diff")], capture_output=True, text=True)
            if r.returncode != 0:
                with lock:
                    results[n][p] = "patch does not apply"
                continue
            cur = n
        r = subprocess.run(["./check", p, "quick"], cwd=VERIF, env=env, capture_output=True, text=True)
        lines = [l for l in r.stdout.split("\n") if l.startswith(("VIOLATION", "OK", "TOOL-ERROR", "KNOWN"))]
        verdict = "; ".join(l for l in lines if not l.startswith("KNOWN"))[:400] or f"rc={r.returncode}"
        detail = "\n".join(r.stdout.split("\n")[:12]) if "VIOLATION" in verdict or "TOOL" in verdict else ""
        with lock:
            results[n][p] = verdict
            print(n, p, verdict.split(" ")[0], flush=True)
            if detail:
                print(detail[:1500], flush=True)
            mp = os.path.join(VERIF, "seeded_ok", n, "meta.json")
            m = json.load(open(mp)) if os.path.exists(mp) else {"name": n}
            m.setdefault("quick_results", {})[p] = verdict
            json.dump(m, open(mp, "w"), indent=1)
    subprocess.run(["git", "-C", wt, "checkout", "--", "."], capture_output=True)
    subprocess.run(["git", "-C", "/repo", "worktree", "remove", "--force", wt], capture_output=True)
    h = "lane_" + hashlib.sha256(wt.encode()).hexdigest()[:8]
    shutil.rmtree(os.path.join(VERIF, "work", h), ignore_errors=True)


ths = [threading.Thread(target=lane, args=(i,)) for i in range(lanes)]
[t.start() for t in ths]
[t.join() for t in ths]
