#!/bin/bash
# Re-run, for every seeded change under /verif/seeded, the quick check of the property it was written for
# (plus any extra properties given in seeded/<name>/also.txt) and record the outcome in meta.json.
cd /repo || exit 2
if [ -n "$(git status --porcelain --untracked-files=no)" ]; then echo "repo dirty"; exit 2; fi
for d in /verif/seeded/*/; do
  name=$(basename $d)
  [ -n "$1" ] && [[ "$name" != $1* ]] && continue
  prop=$(python3 -c "import json;print(json.load(open('$d/meta.json'))['written_for_property'][:3])")
  props="$prop $(cat $d/also.txt 2>/dev/null)"
  git apply $d/patch.diff || { echo "$name: patch does not apply"; continue; }
  for p in $props; do
    R=$(cd /verif && timeout 1800 ./check $p quick 2>&1 | grep -E "^(VIOLATION|OK|TOOL-ERROR)" | head -2 | tr '\n' ';')
    echo "$name [$p] $R"
    python3 - "$d" "$p" "$R" <<'PY'
import json,sys
d,p,r=sys.argv[1:4]
m=json.load(open(d+"/meta.json"))
m.setdefault("final_quick_results",{})[p]=r[:300]
json.dump(m,open(d+"/meta.json","w"),indent=1)
PY
  done
  git checkout -- .
done
