#!/usr/bin/env python3
"""Regenerate /verif/MANIFEST.json from the table below (kept here so that it always validates)."""
import json, subprocess
props = {json.loads(l)["id"]: json.loads(l) for l in open("/verif/properties.jsonl")}
hook_commit = subprocess.run(["git", "-C", "/repo", "log", "--format=%h", "--grep=verif-hooks", "-n", "5"],
                             capture_output=True, text=True).stdout.split()

CLAIMED = {
 "C01": ("model_checking", "TLA+ model checking (TLC) of the arena machine against the abstract ordered map + exhaustive replay of every TLC transition on the real code",
         "TLC visits every state of the 2-bit universe for the complete mutator alphabet and checks refinement (contents and return values) against the abstract map on every transition; every one of those transitions is then executed on the real PrefixMap/PrefixSet (several prefix types) and compared."),
 "C02": ("model_checking", "TLC: LPM stack walk = declarative longest covering entry on every state/query; rows replayed on the code",
         "All reachable shapes (incl. value-less leftovers) x all queries of the bounded universe, on specification and code."),
 "C03": ("model_checking", "TLC: iterator stack machine = sorted entries on every state; rows replayed on the code",
         "All reachable shapes of the bounded universe."),
 "C04": ("model_checking", "TLC invariant count = number of valued reachable nodes; len()/is_empty()/iter().count() compared after every replayed transition",
         "Every transition of the bounded universe executed on the code; len() is compared with iteration after each."),
 "C05": ("model_checking", "TLC over pairs of maps: union stack machine vs abstract union for every pair of view roots; rows replayed on the code (map/map, map/String-map, map/set, set/set)",
         "Pairs of reachable shapes (canonical x canonical up to 3 entries each, shapes with value-less leftovers x canonical) x all 49 pairs of view roots (stored, branching, virtual, nested, disjoint)."),
 "C06": ("model_checking", "TLC over pairs of maps: intersection stack machine vs abstract intersection for every pair of view roots; rows replayed on the code",
         "As C05."),
 "C07": ("model_checking", "TLC over pairs of maps: difference and covering-difference stack machines vs abstract definitions; rows replayed on the code",
         "As C05, including b empty, b holding the zero-length prefix, b's root below or beside a's root."),
 "C08": ("model_checking", "TLC over pairs of maps: inherited-LPM bookkeeping of union/difference vs declarative LPM in the other view's entries; rows replayed on the code",
         "As C05; the annotation fields of every one-sided item are compared."),
 "C17": ("exploration", "TLC as evaluator: logged evaluations of the real Prefix operations (all 14 types) validated against Bits.tla; the laws of Bits.tla model-checked for all widths <= 3/4",
         "Pure-function property: exhaustive for the 8-bit tuple type's values (unary operations, is_bit_set for all 256 indices), boundary-biased values x all lengths for the wider types; every logged line is decided by TLC, all 5.3 million ordered pairs of the 8-bit universe additionally by an in-process oracle."),
 "C18": ("model_checking", "TLC with host-token variants on every argument: abstract map keyed by network bits, stored representation = last inserting call; all returned prefixes compared with host bits on the code",
         "Every key is passed with several host-bit patterns; returned prefixes of lookups, iterators, views, entries and set operations are compared including host bits on all types that retain them."),
 "C20": ("model_checking", "TLC: every action total and panic-free on every state/argument, explicit PANIC outcomes at unwrap sites, fault actions (callback panics at every index); rows replayed under catch_unwind + watchdog in debug and release builds at boundary lengths of all 14 types",
         "No-panic / termination is checked on every replayed transition (boundary universe width-2..width for every type, debug and release profile); injected callback panics at every invocation index with the post-state compared; the one listed finding (OccupiedEntry used after remove) is explained by a named deviation of the specification."),
 "C19": ("model_checking", "TLC over pairs of maps: PartialEq algorithm vs equality of sorted entry sequences; ==, != in both directions replayed on the code",
         "Pairs of reachable states incl. strict-prefix pairs, empty map, equal contents with different shapes."),
 "C09": ("model_checking", "TLC: cover/spm walks = declarative covering entries by length; rows replayed on the code",
         "All reachable shapes x all queries of the bounded universe."),
 "C10": ("model_checking", "TLC: children start / remove_children / recursive retain (all keep-sets, call log) vs abstract definitions; rows replayed on the code",
         "All reachable shapes x all selectors x all predicates (as keep-sets) of the bounded universe."),
 "C11": ("model_checking", "TLC: view location algebra (find/left/right incl. virtual positions) vs 'entries under the prefix' on every state and root; complete sub-view graph replayed on TrieView and TrieViewMut",
         "For every reachable shape and every q the whole graph of sub-views below view_at(q) is described through prefix/value/iter/left/right (and has_left/has_right/split for mutable views) and compared."),
 "C12": ("model_checking", "TLC: find / find_exact / find_lpm from every view location for every query vs view-relative abstract definitions; rows replayed on both view kinds",
         "All (shape, view root, query, search kind) combinations of the bounded universe, including queries covering or beside the view and virtual roots."),
 "C13": ("model_checking", "TLC: each mutable traversal = read-only twin and write-through changes exactly the yielded entries; replayed with all &mut held simultaneously",
         "Write through the k-th reference only (every k) or through all, for every mutable traversal of maps and mutable views."),
 "C14": ("model_checking", "Borrow.tla: every client program of <= 4/5 API calls judged AliasFree/Typed by TLC (Typed => AliasFree checked), each compiled by rustc; thread-capability matrix; Sched.tla interleavings + logs of real threads; alias rows with address checks",
         "VIOLATION iff rustc accepts a program the model judges aliasing or a thread transfer it judges unsound; all references obtainable at once are checked for pairwise distinct addresses on every shape of the bounded universe; all interleavings of workers on disjoint views in the model, real threaded runs validated against the same step relation."),
 "C15": ("model_checking", "TLC invariants WF / IsTree / canonical shape; tree observed through views compared after every replayed transition",
         "Canonical shape is defined declaratively from the key set; every transition's resulting tree is compared with the code's view walk."),
 "C16": ("model_checking", "TLC invariant Partition + step property 'arena grows only when no slot is free'; hook snapshot compared after every replayed transition",
         "Slot accounting is explored with states distinguished by arena length and free-list size; the real arena is inspected through the read-only hook after every transition."),
}
NOTE = "Trusted: TLC + CommunityModules; the harness projection (own bit conversions, public view walk, read-only hook); bounded universe (2-bit keys, see DESIGN.md section 9)."

checks = []
for pid, (lvl, tech, text) in sorted(CLAIMED.items()):
    checks.append(dict(property_id=pid, quick_cmd=f"./check {pid} quick", thorough_cmd=f"./check {pid} thorough",
                       evidence_file=f"/verif/evidence/{pid}.json", replay_cmd_template="./check --replay {path}",
                       engine="tlc+harness",
                       level_claimed=dict(category=lvl, text=text, design_ref="DESIGN.md section 5, " + pid),
                       level_note=NOTE, technique=tech))
na = [dict(property_id=p, reason="check under construction (DESIGN.md section 10); will be claimed once its TLA+ binding is built")
      for p in props if p not in CLAIMED]
m = dict(version=1, setup_cmd="./check setup",
         hooks=dict(guard="cargo feature verif-hooks", enable="the harness crate depends on /repo with features [verif-hooks, ipnet, ipnetwork, cidr, serde]",
                    baseline_off_cmd="cd /repo && cargo test --workspace --no-fail-fast --offline",
                    source_commits=hook_commit, add_only=True),
         engines=[dict(name="tlc+harness", path="/verif/check", serves_properties=sorted(CLAIMED),
                       kind_free_text="TLA+ specification (spec/*.tla) model-checked by TLC; transitions replayed on the Rust code by harness/, traces of the code validated by TLC")],
         checks=checks, not_applicable=na,
         notes="See DESIGN.md. Exit 2 = tool error (never a violation).")
json.dump(m, open("/verif/MANIFEST.json", "w"), indent=1)
