#!/usr/bin/env python3
"""What each property's check runs: TLC configurations (specification side), and how their
rows are bound to the code (implementation side)."""
import concurrent.futures as cf
import json, os, subprocess, sys, time

import vlib
from vlib import ToolError, log

ALL_TYPES = ["u8", "u16", "u32", "u64", "u128", "usize", "Ipv4Net", "Ipv6Net", "Ipv4Network",
             "Ipv6Network", "Ipv4Cidr", "Ipv6Cidr", "Ipv4Inet", "Ipv6Inet"]
QUICK_TYPES = ["u8", "u32", "Ipv4Net", "Ipv6Net"]

MUT = ["Insert", "Remove", "RemoveKeepTree", "RemoveChildren", "Retain", "Clear"]
EXACT = ["Get", "GetKV", "Contains"]
STATE_INV = ["InvWF", "InvPartition", "InvCount", "InvRefines", "InvCanon", "EmitState"]
STEP_PROPS = ["PropRet", "PropGrow", "PropShape", "PropAcct"]


def tset(xs):
    return "{" + ", ".join('"%s"' % x for x in xs) + "}"


class TableJob:
    """One TLC exploration of MC.tla whose emitted rows are replayed on the code."""

    def __init__(self, name, acts, emit, vals="{1}", hosts='{"0"}', keylen=2, base="<<>>", maxcount=7,
                 viewacct=False, entrydepth=1, maxnodes=99, uar=False, keys=None, targets=None, workers=8, timeout=1200, root="MC", extra_consts=None,
                 inv=None, props=None, profile="dev", release_targets=(), simulate=None, depth=25):
        self.simulate, self.depth = simulate, depth
        self.profile = profile
        self.release_targets = list(release_targets)
        self.name, self.acts, self.emit = name, acts, emit
        self.consts = dict(KeyLen=str(keylen), Base=base, ExplicitKeys=keys or "{}", Hosts=hosts, Vals=vals, Acts=tset(acts),
                           MaxCount=str(maxcount), MaxNodes=str(maxnodes), EmitActs=tset(emit),
                           ViewAcct="TRUE" if viewacct else "FALSE", EntryDepth=str(entrydepth),
                           UseAfterRemove="TRUE" if uar else "FALSE")
        if extra_consts:
            self.consts.update(extra_consts)
        self.targets = targets or [(t, "map", "plain") for t in QUICK_TYPES]
        self.workers, self.timeout, self.root = workers, timeout, root
        self.inv = inv or STATE_INV
        self.props = props or STEP_PROPS

    def run_tlc(self):
        r = vlib.tlc_run(self.name, self.root, self.consts, inv=self.inv, prop=self.props, view="View",
                         constraint="Bound", action_constraint="Emit", workers=self.workers,
                         timeout=self.timeout, simulate=self.simulate,
                         extra_args=(["-depth", str(self.depth)] if self.simulate else []))
        if r.get("timeout"):
            raise ToolError(f"TLC timed out on {self.name}")
        if not r["ok"]:
            raise ToolError(f"the specification itself fails in configuration {self.name}: {r.get('error')} (see {r['log']})")
        return r


class PairJob:
    """One TLC exploration of MCPair.tla (two maps); rows = set operations between two views."""
    replay_cmd = "replay-pairs"

    def __init__(self, name, acts_a, acts_b, pair_acts, max_a, max_b, emit=None, targets=None, hosts='{"0"}',
                 workers=8, timeout=900, keylen=2, base="<<>>", vals_a="{1}", vals_b="{2}", nodes_a=99, nodes_b=99, keys=None):
        self.name = name
        self.consts = dict(KeyLen=str(keylen), Base=base, ExplicitKeys=keys or "{}", Hosts=hosts, ValsA=vals_a, ValsB=vals_b, ActsA=tset(acts_a),
                           ActsB=tset(acts_b), PairActs=tset(pair_acts), MaxCountA=str(max_a), MaxCountB=str(max_b), MaxNodesA=str(nodes_a), MaxNodesB=str(nodes_b),
                           EmitActs=tset(pair_acts if emit is None else emit))
        self.targets = targets or [("u32", "map-map", "plain")]
        self.workers, self.timeout = workers, timeout
        self.inv = ["InvWF", "InvRefines", "EmitState"]
        self.props = ["PropPair"]

    def run_tlc(self):
        r = vlib.tlc_run(self.name, "MCPair", self.consts, inv=self.inv, prop=self.props, view="View",
                         constraint="Bound", action_constraint="Emit", workers=self.workers, timeout=self.timeout)
        if r.get("timeout"):
            raise ToolError(f"TLC timed out on {self.name}")
        if not r["ok"]:
            raise ToolError(f"the specification itself fails in configuration {self.name}: {r.get('error')} (see {r['log']})")
        return r


class TraceJob:
    """Binding 2: a random history recorded from the real code and validated by TLC (TraceV.tla)."""

    def __init__(self, ptype, profile="full", runs=4, events=400, salt=0):
        self.ptype, self.profile, self.runs, self.events, self.salt = ptype, profile, runs, events, salt

    def tag(self):
        return f"{self.ptype}_{self.profile}_{self.salt}"

    def run(self, binpath):
        sd = vlib.seed() * 1000 + self.salt
        info = vlib.record_trace(binpath, self.tag(), self.ptype, self.profile, self.runs, self.events, sd)
        if info.get("diverged"):
            import shutil as _sh
            _sh.rmtree(info["dir"], ignore_errors=True)
            return dict(info, lines=0, lines_ok=0, rejections=[], diverged=True)
        res = vlib.validate_trace(info)
        if res["rejections"] and not self.profile.endswith("+obs"):
            # some call deviated: replay the same history logging the observation-relative lines after
            # every call, so that the observer properties are judged on every state the code went through
            info2 = vlib.record_trace(binpath, self.tag() + "_obs", self.ptype, self.profile + "+obs", self.runs,
                                      self.events, sd)
            if not info2.get("diverged"):
                res2 = vlib.validate_trace(info2, max_rounds=8)
                res["rejections"] += res2["rejections"]
                res["followup_obs_lines_ok"] = res2["lines_ok"]
                import shutil as _sh
                _sh.rmtree(info2["dir"], ignore_errors=True)
        res["per_action"] = info.get("per_action")
        res["max_entries"] = info.get("max_entries")
        res["seed"] = sd
        # keep one sample line, drop the bulky files
        try:
            with open(info["trace"]) as f:
                ls = f.readlines()
            res["sample"] = json.loads(ls[min(len(ls) - 1, 7)])
        except Exception:
            res["sample"] = None
        import shutil
        shutil.rmtree(info["dir"], ignore_errors=True)
        return res


def trace_jobs(prop, tier):
    q = tier == "quick"
    pair_props = ("C05", "C06", "C07", "C08", "C19")
    prof = "pairs" if prop in pair_props else ("viewmut" if prop == "C04" else ("faults" if prop == "C20" else "full"))
    extra = [TraceJob("u32" if q else t, "set", runs=3 if q else 8, events=300 if q else 1500, salt=50 + i)
             for i, t in enumerate(["u32"] if q else ["u8", "u64", "Ipv6Net", "Ipv4Cidr"])] \
        if prop in ("C01", "C02", "C03", "C04", "C09", "C10", "C15", "C16") else []
    # complete chains down to full width (walks of maximal depth)
    if prop not in pair_props:
        extra += [TraceJob(t, "chain", runs=3 if q else 8, events=400 if q else 1500, salt=70 + i)
                  for i, t in enumerate(["u8", "u64"] if q else ["u8", "u16", "u32", "u64", "u128", "Ipv4Net", "Ipv6Net"])]
    if q:
        ts = ["u32", "Ipv6Net", "u8", "Ipv4Inet"]
        return [TraceJob(t, prof, runs=6, events=400, salt=i) for i, t in enumerate(ts)] + extra
    return [TraceJob(t, prof, runs=10, events=1500, salt=i) for i, t in enumerate(ALL_TYPES)] + \
           [TraceJob(t, "core", runs=6, events=3000, salt=100 + i) for i, t in enumerate(["u32", "u128", "Ipv4Net"])] + extra


def targets(types, colls=("map",), ctxs=("plain",)):
    return [(t, c, x) for t in types for c in colls for x in ctxs]


# ---------------------------------------------------------------------------------------------
# per-property plans
# ---------------------------------------------------------------------------------------------
def plan(prop, tier):
    q = tier == "quick"
    types = QUICK_TYPES if q else ALL_TYPES
    sets = targets(["u32"] if q else ["u8", "u32", "u128", "Ipv4Net", "Ipv6Cidr"], ("set",))
    both = targets(types) + sets
    core = ["Insert", "Remove", "RemoveKeepTree", "RemoveChildren"]
    # canonical shapes of the 3-bit universe (15 keys): deep enough for grand-parent collapses
    def u3c(name, emit, extra=(), mc=None):
        acts = ["Insert", "Remove", "Retain"] + list(extra)
        return TableJob(name, acts, emit, keylen=3, maxcount=mc or (4 if q else 6), targets=targets(["u32", "u8"] if q else types) + sets,
                        timeout=1500)
    # shapes with value-less leftovers in the 3-bit universe, capped
    def u3k(name, emit, extra=(), mc=None, mn=None):
        acts = ["Insert", "Remove", "RemoveKeepTree"] + list(extra)
        return TableJob(name, acts, emit, keylen=3, maxcount=mc or (2 if q else 3), maxnodes=mn or (5 if q else 6),
                        targets=targets(["u32"] if q else types), timeout=1500)
    IRK3 = ["Insert", "Remove", "RemoveKeepTree"]
    def bnd(name, obs, muts=None):
        """the same structure at the lengths width-2 .. width of the concrete types (shift / mask boundaries)"""
        muts = muts or IRK3
        return [TableJob(name + "_bnd", muts + obs, obs, base="<<1>>", maxcount=2 if q else 3, maxnodes=4 if q else 5,
                         targets=targets(["u8", "u64", "u128", "Ipv4Net"] if q else ALL_TYPES, ("map",), ("stretch:2",)), timeout=1500)]
    CH10 = "{<<>>, <<0>>, <<0,0>>, <<0,0,0>>, <<0,0,0,0>>, <<0,0,0,1>>, <<0,0,1>>, <<0,0,1,0>>, <<0,1>>, <<1>>}"
    def chain(name, emit, acts=None, mc=None, mn=None):
        """a chain four levels deep with its siblings (10 keys), complete mutator alphabet: nesting deeper than U3"""
        acts = acts or (MUT + [e for e in emit if e not in MUT])
        return [TableJob(name + "_chain", acts, emit, keylen=-1, keys=CH10, maxcount=mc or (3 if q else 5), maxnodes=mn or (6 if q else 8),
                         targets=targets(["u32", "Ipv6Net"] if q else QUICK_TYPES + ["u64"]), timeout=2400)]
    def deep(name, obs, mc=3, mn=6, tg=None):
        """thorough only: all shapes of the 3-bit universe with value-less leftovers (capped), and random deep
        walks in the 4-bit universe with the complete fan-out of every visited state"""
        if q:
            return []
        tg = tg or targets(["u8", "u32", "u128", "Ipv4Net", "Ipv6Inet"])
        return [TableJob(name + "_u3k", IRK3 + obs, obs, keylen=3, maxcount=mc, maxnodes=mn, targets=tg, timeout=3000),
                TableJob(name + "_sim4", MUT + obs, obs, keylen=4, maxcount=10, maxnodes=16, targets=tg, timeout=3000,
                         simulate="num=40", depth=30, workers=4)]
    if prop == "C01":
        return [TableJob("c01_u2", MUT + EXACT, MUT + EXACT, vals="{1,2}", maxcount=3 if q else 7,
                         targets=targets(types)),
                TableJob("c01_u2s", MUT + EXACT, MUT + EXACT, targets=sets),
                TableJob("c01_entry", ["Insert", "Remove", "RemoveKeepTree", "Entry", "GetMut"], ["Entry", "GetMut"],
                         vals="{1,2}", maxcount=2 if q else 3, entrydepth=1, targets=targets(types)),
                *([] if q else [TableJob("c01_entry2", ["Insert", "Remove", "RemoveKeepTree", "Entry"], ["Entry"],
                                         vals="{1,2}", maxcount=2, entrydepth=2, targets=targets(QUICK_TYPES), timeout=2400)]),
                u3c("c01_u3c", ["Insert", "Remove", "Retain", "Get"], ["Get"])] + \
               bnd("c01", EXACT + ["Insert", "Remove", "RemoveKeepTree", "RemoveChildren", "Retain"], muts=[]) + \
               chain("c01", MUT + ["Get"])
    if prop == "C02":
        return [TableJob("c02_u2", MUT + ["Lpm"], ["Lpm"], targets=both)] + bnd("c02", ["Lpm"]) + chain("c02", ["Lpm"]) + deep("c02", ["Lpm"], 4, 7)
    if prop == "C03":
        return [TableJob("c03_u2", MUT + ["Iter"], ["Iter"], targets=both)] + bnd("c03", ["Iter"]) + chain("c03", ["Iter"]) + deep("c03", ["Iter"], 4, 7)
    if prop == "C04":
        hm = ["Entry", "GetMut", "ViewSet", "ViewRemove"]
        return [TableJob("c04_u2", MUT + ["Len"], MUT + ["Len"], viewacct=not q, targets=both),
                TableJob("c04_handles", core + hm + ["Len"], hm + core + ["Len"], vals="{1,2}" if not q else "{1}",
                         maxcount=2 if q else 3, entrydepth=1, targets=targets(types), timeout=2400)]
    if prop == "C09":
        return [TableJob("c09_u2", MUT + ["Spm", "Cover", "Lpm"], ["Spm", "Cover"], targets=both)] + bnd("c09", ["Spm", "Cover"]) + chain("c09", ["Spm", "Cover"]) + deep("c09", ["Spm", "Cover"], 4, 7)
    if prop == "C10":
        return [TableJob("c10_u2", MUT + ["Children"], ["Children", "RemoveChildren", "Retain"], targets=both),
                u3c("c10_u3c", ["Retain", "Children"], ["Children"])] + bnd("c10", ["Children", "RemoveChildren"]) + chain("c10", ["Children", "RemoveChildren", "Retain"]) + deep("c10", ["Children", "Retain", "RemoveChildren"])
    if prop == "C11":
        return [TableJob("c11_u2", core + ["ViewDesc"], ["ViewDesc"], targets=both),
                # view_at on a view (= find): from every view position, stored, branching or virtual
                TableJob("c11_at", core + ["FindAt"], ["Find"], targets=both)] + bnd("c11", ["ViewDesc"]) + chain("c11", ["ViewDesc"]) + deep("c11", ["ViewDesc"])
    if prop == "C12":
        return [TableJob("c12_u2", core + ["Find"], ["Find"], targets=both)] + bnd("c12", ["Find"]) + chain("c12", ["Find"], mc=2 if q else 3, mn=5 if q else 6) + deep("c12", ["Find"], 2, 5)[:1]
    if prop == "C13":
        w = ["GetMut", "LpmMut", "IterMut", "ValuesMut", "ChildrenMut", "ViewValueMut", "ViewIterMut"]
        IRx, IRKx = ["Insert", "Remove"], ["Insert", "Remove", "RemoveKeepTree"]
        ptg = [(t, "map-map", "plain") for t in (["u32", "Ipv6Net"] if q else ["u8", "u32", "u128", "Ipv4Net", "Ipv6Net", "Ipv4Cidr"])] + \
              [("u32", c, "plain") for c in ("map-str", "map-set", "set-map")]
        return [TableJob("c13_u2", core + w, w, vals="{1,2}", maxcount=3 if q else 4, targets=targets(types)),
                # writes through the _mut set operations land exactly on the yielded entries of both operands
                PairJob("c13_pw_cc", IRx, IRx, ["PairWrite"], 2, 2, targets=ptg),
                PairJob("c13_pw_lc", IRKx, IRx, ["PairWrite"], 2, 1 if q else 2, nodes_a=4 if q else 5, targets=ptg),
                PairJob("c13_pw_cl", IRx, IRKx, ["PairWrite"], 1 if q else 2, 2, nodes_b=4 if q else 5, targets=ptg)]
    if prop in ("C05", "C06", "C07", "C08", "C19"):
        IR, IRK = ["Insert", "Remove"], ["Insert", "Remove", "RemoveKeepTree"]
        ops = {"C05": ["Union", "UnionMut"], "C06": ["Inter", "InterMut"], "C07": ["Diff", "DiffMut", "CovDiff", "CovDiffMut"],
               "C08": ["Union", "Diff", "DiffMut"], "C19": ["Eq"]}[prop]
        ptypes = ["u32", "Ipv6Net"] if q else ["u8", "u32", "u128", "Ipv4Net", "Ipv6Net", "Ipv4Cidr"]
        pt = [(t, c, "plain") for t in ptypes for c in (["map-map"] if q else ["map-map", "map-str"])]
        pt += [("u32", c, "plain") for c in ("map-set", "set-map", "set-set")]
        n = 2 if q else 3
        if prop == "C19":
            mm = [(t, "map-map", "plain") for t in ptypes]
            ss = [(t, "set-set", "plain") for t in (["u32"] if q else ptypes)]
            return [PairJob("c19_cc", IR, IR, ops, 2, 2, targets=mm, vals_a="{1,2}", vals_b="{1,2}"),
                    PairJob("c19_lc", IRK, IR, ops, 2, 1 if q else 2, nodes_a=99 if q else 5, targets=mm, vals_a="{1,2}", vals_b="{1,2}", timeout=2400),
                    PairJob("c19_cl", IR, IRK, ops, 1 if q else 2, 2, nodes_b=99 if q else 5, targets=mm, vals_a="{1,2}", vals_b="{1,2}", timeout=2400),
                    PairJob("c19_sets", IRK, IR, ops, 2, 2 if q else 3, targets=ss, vals_a="{1}", vals_b="{1}"),
                    # equality must not depend on how the contents came about, in particular not on the
                    # cached counter that TrieViewMut::set / remove leave behind (finding F4)
                    PairJob("c19_views", ["Insert", "ViewRemove", "ViewSet", "RemoveKeepTree"], IR, ops, 2, 2, nodes_a=4, targets=mm,
                            vals_a="{1}", vals_b="{1}"),
                    # representations that differ only in host bits are different keys for the key type's own equality
                    PairJob("c19_hosts", IR, IR, ops, 2, 2, hosts='{"0","2"}', nodes_a=3, nodes_b=3, timeout=300,
                            targets=[(t, "map-map", "plain") for t in (["u32", "Ipv4Net"] if q else [x for x in ptypes if "Cidr" not in x])]
                                    + [("u32", "set-set", "plain")], vals_a="{1}", vals_b="{1}"),
                    TableJob("c19_single", MUT + ["CloneCheck", "Collect", "Serde"], ["CloneCheck", "Collect", "Serde"],
                             targets=both)]
        split = [TableJob(prop.lower() + "_split", core + ["SplitOp"], ["SplitOp"], targets=targets(types))] if prop in ("C05", "C06", "C07") else []
        # the same operations at the boundary lengths width-2 .. width
        bpt = [(t, "map-map", "stretch:2") for t in (["u8", "u128", "Ipv4Net"] if q else ALL_TYPES)]
        bnd_pairs = [PairJob(prop.lower() + "_bnd", IR, IR, ops, 2, 2, base="<<1>>", nodes_a=4, nodes_b=4, targets=bpt)]
        # a chain four levels deep with siblings: deeper than the complete universes can afford for pairs
        CH7 = "{<<>>, <<0>>, <<0,0>>, <<0,0,0>>, <<0,0,0,0>>, <<0,0,0,1>>, <<0,0,1,0>>}"
        CH10 = "{<<>>, <<0>>, <<0,0>>, <<0,0,0>>, <<0,0,0,0>>, <<0,0,0,1>>, <<0,0,1>>, <<0,0,1,0>>, <<0,1>>, <<1>>}"
        ch = CH7 if q else CH10
        dpt = [(t, "map-map", "plain") for t in (["u32"] if q else ["u8", "u32", "u128", "Ipv4Net"])]
        deep_pairs = [PairJob(prop.lower() + "_deep_lc", IRK, IR, ops, 3, 1, nodes_a=6, nodes_b=2, keylen=-1, keys=ch, targets=dpt, timeout=2400),
                      PairJob(prop.lower() + "_deep_cl", IR, IRK, ops, 1, 3, nodes_a=2, nodes_b=6, keylen=-1, keys=ch, targets=dpt, timeout=2400)]
        return split + bnd_pairs + deep_pairs + [PairJob(prop.lower() + "_cc", IR, IR, ops, 3, 3, targets=pt),
                PairJob(prop.lower() + "_lc", IRK, IR, ops, n, 2, nodes_a=4 if q else 6, targets=pt),
                PairJob(prop.lower() + "_cl", IR, IRK, ops, 2, n, nodes_b=4 if q else 6, targets=pt)]
    if prop == "C18":
        hostful = [t for t in types if "Cidr" not in t]
        obs = ["GetKV", "Lpm", "Spm", "Cover", "Children", "Iter", "ViewDesc"]
        mut = ["Insert", "Remove", "RemoveKeepTree", "RemoveChildren", "Entry", "ViewSet"]
        IR = ["Insert", "Remove", "RemoveKeepTree"]
        pops = ["Union", "Inter", "Diff", "CovDiff", "UnionMut"]
        return [TableJob("c18_u2", mut + obs, mut + obs, hosts='{"0","2"}' if q else '{"0","1","2"}', maxcount=2, maxnodes=3, timeout=600,
                         targets=targets(hostful) + targets(["u32"], ("set",))),
                # host bits right at the full-width boundary (host parts of 0, 1 or 2 bits)
                TableJob("c18_bnd", (["Insert", "Remove", "RemoveKeepTree", "ViewSet"] if q else mut) + obs,
                         (["Insert", "Remove", "RemoveKeepTree", "ViewSet"] if q else mut) + obs, hosts='{"0","1"}', base="<<1>>", maxcount=2, maxnodes=3, timeout=900,
                         targets=targets(["u8", "u32", "Ipv6Net", "Ipv4Inet"] if q else hostful, ("map",), ("stretch:2",))),
                PairJob("c18_pairs", IR, IR, pops, 2, 2, hosts='{"0","2"}', timeout=200 if q else 2400, nodes_a=2 if q else 3, nodes_b=2,
                        targets=[(t, "map-map", "plain") for t in (["u32", "Ipv6Net"] if q else hostful)])]
    if prop == "C20":
        allobs = ["Get", "GetKV", "Contains", "Lpm", "Spm", "Cover", "Children", "Iter", "Len", "ViewDesc", "Find", "Misc", "SplitOp"]
        allmut = MUT + ["Entry", "GetMut", "LpmMut", "IterMut", "ValuesMut", "ChildrenMut", "ViewValueMut", "ViewIterMut"]
        every = allmut + allobs
        bt = ALL_TYPES
        jobs = [
            # the whole single-map API at the boundary lengths width-2 .. width of every shipped prefix type,
            # in debug mode (overflow checks, debug assertions) and in release mode (as shipped)
            TableJob("c20_boundary", every, every, base="<<1>>", maxcount=2, maxnodes=3 if q else 4,
                     targets=targets(bt, ("map",), ("stretch:2",)) + targets(["u8", "u128", "Ipv4Cidr"], ("set",), ("stretch:2",)),
                     release_targets=targets(["u8", "u32", "u128", "Ipv6Net"] if q else bt, ("map",), ("stretch:2",))),
            # user callbacks that panic at every invocation index: the map stays valid (C20, second half)
            TableJob("c20_faults", core + ["RetainPanic", "Entry"], ["Retain", "Entry"], maxcount=3 if q else 4,
                     entrydepth=1, targets=targets(types) + sets, timeout=2400),
            *([] if q else [TableJob("c20_faults2", ["Insert", "RemoveKeepTree", "Entry"], ["Entry"], vals="{1}", maxcount=2,
                                     entrydepth=2, targets=targets(QUICK_TYPES), timeout=2400)]),
            # the listed finding F7: OccupiedEntry used after its remove()
            TableJob("c20_f7", ["Insert", "Remove", "Entry"], ["Entry"], maxcount=2, uar=True, targets=targets(["u32", "Ipv4Net"])),
        ]
        pops = ["Union", "Inter", "Diff", "CovDiff", "UnionMut", "InterMut", "DiffMut", "CovDiffMut", "Eq"]
        IRx = ["Insert", "Remove"]
        jobs.append(PairJob("c20_pairs", IRx if q else ["Insert", "Remove", "RemoveKeepTree"], IRx, pops, 2, 2,
                            base="<<1>>", nodes_a=4 if q else 5, nodes_b=4,
                            targets=[(t, "map-map", "stretch:2") for t in (["u8", "u64", "Ipv6Inet"] if q else bt)]))
        return jobs
    if prop == "C15":
        return [TableJob("c15_u2", MUT, MUT, targets=both),
                u3c("c15_u3c", ["Insert", "Remove", "Retain"]),
                u3k("c15_u3k", ["Insert", "Remove", "RemoveKeepTree", "RemoveChildren"], ["RemoveChildren"])] + chain("c15", MUT)
    if prop == "C16":
        return [TableJob("c16_u2", MUT, MUT, viewacct=True, targets=both),
                u3c("c16_u3c", ["Insert", "Remove", "Retain"]),
                u3k("c16_u3k", ["Insert", "Remove", "RemoveKeepTree", "RemoveChildren"], ["RemoveChildren"])] + chain("c16", MUT)
    raise ToolError(f"no plan for {prop}")


LEVEL = {p: "model_checking" for p in ["C01", "C02", "C03", "C04", "C05", "C06", "C07", "C08", "C09", "C10", "C11", "C12",
                                       "C13", "C15", "C16", "C18", "C19", "C20"]}


def run_c17(tier):
    t0 = time.time()
    q = tier == "quick"
    binpath = vlib.build_harness("dev")
    laws = vlib.alg_laws(3 if q else 4)
    types = ALL_TYPES
    mode = "quick" if q else "thorough"
    with cf.ThreadPoolExecutor(max_workers=7) as ex:
        infos = list(ex.map(lambda t: vlib.alg_check(binpath, t, mode, vlib.seed()), types))
    viol = 0
    for inf in infos:
        bad = inf.get("rejected_line") or (inf.get("oracle_fail") and {"oracle": inf["oracle_fail"]})
        if bad:
            viol += 1
            path = vlib.write_replay("C17", dict(property="C17", engine="alg", ptype=inf["ptype"], line=bad,
                                                 note="logged evaluation of the real Prefix operations rejected by AlgV.tla / oracle"))
            print(f"VIOLATION property=C17 replay={path}")
            print(f"  {inf['ptype']}: {json.dumps(bad)[:400]}")
    evals = sum(i["lines_ok"] for i in infos) + sum(i["oracle_pairs"] for i in infos)
    cov = dict(evaluations=evals,
               distinct_nontrivial=sum(i["lines_ok"] for i in infos),
               rule="per type: every (address, length) of the 8-bit tuple type, boundary-biased addresses x all lengths for wider types; "
                    "one logged line per value (unary operations, is_bit_set for all 256 indices) or ordered pair (contains, eq, lcp both ways); "
                    "distinct_nontrivial = lines validated by TLC against Bits.tla (lines are generated without repetition per value/partner); "
                    "in addition all 5 308 416 ordered pairs of the 8-bit universe (and a random sample for wider types) are compared with an in-process oracle",
               samples=[i["sample"] for i in infos[:3]],
               exhaustive=False,
               per_type=[{k: i.get(k) for k in ("ptype", "values", "lines", "lines_ok", "pair_lines", "oracle_pairs", "exhaustive_values", "accepted")} for i in infos],
               laws=laws)
    vlib.write_evidence("C17", tier, "exploration", cov, time.time() - t0, viol,
                        ["Bits.tla is the definition of the algebra (its laws are model-checked for all widths up to %d)" % laws["max_tw"],
                         "the harness reads values through the types' own accessors (addr/prefix_len, ip/prefix, ...), not through the Prefix trait"])
    if viol:
        return 1
    print(f"OK property=C17 tier={tier} lines_validated={cov['distinct_nontrivial']} oracle_pairs={sum(i['oracle_pairs'] for i in infos)} wall={time.time()-t0:.0f}s")
    return 0


def run_c14(tier):
    """C14: (1) alias-freedom of everything handed out at once (table rows, address checks on the code);
    (2) programs enumerated by Borrow.tla vs rustc; (3) schedules of workers on disjoint views."""
    import progs
    t0 = time.time()
    q = tier == "quick"
    th, built = vlib.build_harness_async("dev")
    # (2) programs and thread capabilities
    r_b, ps, thr = progs.enumerate_programs(4 if q else 5, 3)
    # second family: the _mut set operations between two mutable views (union_mut / intersection_mut take the
    # second view by value, difference_mut borrows it)
    r_b2, ps2, _ = progs.enumerate_programs(4 if q else 5, 4, ops=progs.SETOP_OPS, name="c14_setops")
    ps = ps + ps2
    r_b = dict(r_b, distinct=r_b.get("distinct", 0) + r_b2.get("distinct", 0), generated=r_b.get("generated", 0) + r_b2.get("generated", 0))
    verdicts = progs.judge(ps, thr)
    foreign_codes = [v for v in verdicts if v["foreign_codes"]]
    if foreign_codes:
        raise ToolError(f"generated program does not type-check (renderer out of date?): {foreign_codes[0]['codes']}\n{foreign_codes[0]['src']}")
    bad = [v for v in verdicts if v["accepted"] and (("prog" in v["row"] and not v["row"]["aliasfree"]) or
                                                      ("sound" in v["row"] and not v["row"]["sound"]))]
    quad = {}
    for v in verdicts:
        row = v["row"]
        key = ("program:" + ("accepted" if v["accepted"] else "rejected") + "/" + ("alias-free" if row["aliasfree"] else "aliasing")) \
            if "prog" in row else ("thread:" + ("accepted" if v["accepted"] else "rejected") + "/" + ("sound" if row["sound"] else "unsound"))
        quad[key] = quad.get(key, 0) + 1
    model_vs_rustc = sum(1 for v in verdicts if "prog" in v["row"] and v["accepted"] != v["row"]["typed"])
    # (3) schedules: all interleavings in the model ...
    regs = ['<<<<"a","b">>, <<"c","d","e">>>>', '<<<<"a">>, <<"b","c">>, <<"d","e">>>>'] if q else \
           ['<<<<"a","b","c">>, <<"d","e","f">>>>', '<<<<"a","b">>, <<"c","d">>, <<"e","f">>>>', '<<<<"a">>, <<"b">>, <<"c">>, <<"d">>>>']
    sched_mc = []
    for i, rg in enumerate(regs):
        r = vlib.tlc_run(f"c14_sched{i}", "Sched", dict(Regions=rg), inv=["InvFinal", "InvIsolated"], workers=4, timeout=600,
                         init="InitS", nxt="NextS", env_extra={"TRACE": "/dev/null"})
        if not r["ok"]:
            raise ToolError(f"Sched.tla fails: {r.get('error')}")
        sched_mc.append(r)
    th.join()
    if "err" in built:
        raise built["err"]
    binpath = built["bin"]
    # ... and logs of real threads validated against the same step relation
    sched_tr = []
    for i, t in enumerate(["u32", "Ipv6Net"] if q else ["u8", "u32", "u64", "u128", "Ipv4Net", "Ipv6Net", "Ipv4Inet"]):
        sched_tr.append(vlib.sched_check(binpath, t, vlib.seed() * 100 + i, 30 if q else 200))
    # (1) alias table rows
    jobs = [TableJob("c14_alias", ["Insert", "Remove", "RemoveKeepTree", "Alias"], ["Alias"], targets=targets(QUICK_TYPES if q else ALL_TYPES)),
            TableJob("c14_alias3", ["Insert", "Remove", "Alias"], ["Alias"], keylen=3, maxcount=4 if q else 5,
                     targets=targets(["u32"] if q else QUICK_TYPES))]
    tlc_results = [j.run_tlc() for j in jobs]
    reports = []
    with cf.ThreadPoolExecutor(max_workers=8) as ex:
        futs = [ex.submit(vlib.replay_rows, binpath, r["rows_file"], t, c, x) for j, r in zip(jobs, tlc_results) for (t, c, x) in j.targets]
        reports = [f.result() for f in futs]
    for r in tlc_results:
        try:
            os.remove(r["rows_file"])
        except OSError:
            pass
    viol = 0
    for v in bad[:6]:
        viol += 1
        path = vlib.write_replay("C14", dict(property="C14", engine="program", source=v["src"], model=v["row"],
                                             note="rustc accepts this program although the model says it aliases / the transfer is unsound"))
        print(f"VIOLATION property=C14 replay={path}")
        print("  " + v["src"].replace("\n", "\n  "))
    for st in sched_tr:
        if not st["accepted"]:
            viol += 1
            path = vlib.write_replay("C14", dict(property="C14", engine="sched", ptype=st["ptype"], rejected_line=st.get("rejected_line"),
                                                 note="log of real threads on disjoint views is not explainable by Sched.tla"))
            print(f"VIOLATION property=C14 replay={path}")
    mine = []
    for rep in reports:
        for mm in rep["mismatches"]:
            mine.append(dict(mm, ptype=rep["ptype"], coll=rep["coll"], ctx=rep["ctx"]))
    seen = set()
    for mm in mine:
        key = (mm["kind"], mm["e"].get("a"), mm["e"].get("how"))
        if key in seen or mm["e"].get("a") not in ("Alias",) and mm["kind"] != "pan":
            continue
        seen.add(key)
        viol += 1
        path = vlib.write_replay("C14", dict(property="C14", engine="table", ptype=mm["ptype"], coll=mm["coll"], ctx=mm["ctx"], kind=mm["kind"],
                                             steps=mm.get("h", []), event=mm["e"], expected=mm.get("expected"), observed=mm.get("got"), row=mm.get("row")))
        print(f"VIOLATION property=C14 replay={path}")
    executed = sum(r.get("executed", 0) for r in reports)
    cov = dict(states=sum(r.get("distinct", 0) for r in tlc_results) + r_b.get("distinct", 0) + sum(r.get("distinct", 0) for r in sched_mc),
               transitions=sum(r.get("generated", 0) for r in tlc_results) + r_b.get("generated", 0) + sum(r.get("generated", 0) for r in sched_mc),
               traces_validated_against_impl=executed + len(verdicts) + sum(s["lines_ok"] for s in sched_tr),
               samples=[verdicts[len(verdicts) // 3]["src"], next((v["src"] for v in verdicts if not v["accepted"]), ""),
                        sched_tr[0].get("sample")],
               programs_enumerated=len(ps), thread_rows=len(thr), verdict_quadrants=quad,
               programs_where_rustc_differs_from_the_models_borrow_judgement=model_vs_rustc,
               alias_rows_executed=executed,
               schedules_model=[dict(regions=rg, states=r.get("distinct"), transitions=r.get("generated")) for rg, r in zip(regs, sched_mc)],
               schedules_real=[{k: s.get(k) for k in ("ptype", "runs", "threads", "lines", "lines_ok", "accepted")} for s in sched_tr],
               exhaustive=True,
               rule="every program of <= N statements over the API alphabet is compiled; VIOLATION iff rustc accepts a program the model judges aliasing / unsound")
    vlib.write_evidence("C14", tier, "model_checking", cov, time.time() - t0, viol,
                        ["rustc's verdict is the implementation under test for the compile-time part",
                         "absence of undefined behaviour inside the unsafe blocks (Stacked/Tree Borrows) is not decided here (DESIGN.md section 9)"])
    if viol:
        return 1
    print(f"OK property=C14 tier={tier} programs={len(ps)} thread_rows={len(thr)} alias_rows={executed} sched_lines={sum(s['lines_ok'] for s in sched_tr)} wall={time.time()-t0:.0f}s")
    return 0


def run_check(prop, tier):
    if prop == "C17":
        return run_c17(tier)
    if prop == "C14":
        return run_c14(tier)
    t0 = time.time()
    jobs = plan(prop, tier)
    th, built = vlib.build_harness_async("dev")
    tlc_results = []
    for j in jobs:
        tlc_results.append(j.run_tlc())
    th.join()
    if "err" in built:
        raise built["err"]
    binpath = built["bin"]
    relbin = vlib.build_harness("release") if any(getattr(j, "release_targets", None) for j in jobs) else None
    reports = []
    tjobs = trace_jobs(prop, tier) if prop in TRACE_PROPS else []
    with cf.ThreadPoolExecutor(max_workers=8) as ex:
        tfuts = [ex.submit(tj.run, binpath) for tj in tjobs]
        futs = []
        for j, r in zip(jobs, tlc_results):
            for (t, c, x) in j.targets:
                b = relbin if getattr(j, "profile", "dev") == "release" else binpath
                futs.append(ex.submit(vlib.replay_rows, b, r["rows_file"], t, c, x,
                                      cmdname=getattr(j, "replay_cmd", "replay")))
            for (t, c, x) in getattr(j, "release_targets", []):
                futs.append(ex.submit(vlib.replay_rows, relbin, r["rows_file"], t, c + "", x,
                                      cmdname=getattr(j, "replay_cmd", "replay"), extra=("--tag", "release")))
        for f in futs:
            reports.append(f.result())
        traces = [f.result() for f in tfuts]
    for r in tlc_results:
        try:
            os.remove(r["rows_file"])
        except OSError:
            pass
    return conclude(prop, tier, t0, jobs, tlc_results, reports, traces)


TRACE_PROPS = {"C20", "C01", "C02", "C03", "C04", "C05", "C06", "C07", "C08", "C09", "C10", "C11", "C12", "C13", "C15", "C16",
               "C18", "C19"}


def conclude(prop, tier, t0, jobs, tlc_results, reports, traces=()):
    mine, foreign = [], 0
    def diverged_mm(rec, engine):
        ev = rec.get("event") or {"a": "?"}
        mm = dict(kind="diverged", e=ev, h=[], expected="the call returns", got="no return within the time limit",
                  ptype=rec.get("ptype"), coll=rec.get("coll", "trace:" + str(rec.get("profile"))), ctx=rec.get("ctx", "plain"),
                  engine=engine)
        return mm

    for tr in traces:
        if tr.get("diverged"):
            mm = diverged_mm(tr, "trace")
            if prop in vlib.owners(mm):
                mine.append(mm)
            else:
                foreign += 1
            continue
        for rej in tr["rejections"]:
            for mm in vlib.trace_mismatches(rej):
                mm = dict(mm, ptype=tr["ptype"], coll="trace:" + str(tr["profile"]), ctx="plain", engine="trace")
                if prop in vlib.owners(mm):
                    mine.append(mm)
                else:
                    foreign += 1
                    if os.environ.get("VERIF_DEBUG"):
                        log("foreign trace mismatch", sorted(vlib.owners(mm)), json.dumps(mm)[:1200])
    for rep in reports:
        if rep.get("diverged"):
            mm = diverged_mm(rep, "table")
            if prop in vlib.owners(mm):
                mine.append(mm)
            else:
                foreign += 1
            continue
        for rej in rep.get("side_rejections", []):
            for mm in vlib.trace_mismatches(rej):
                mm = dict(mm, ptype=rep["ptype"], coll=rep["coll"], ctx=rep["ctx"], engine="table-observation")
                if prop in vlib.owners(mm):
                    mine.append(mm)
                else:
                    foreign += 1
        for mm in rep["mismatches"]:
            mm = dict(mm, ptype=rep["ptype"], coll=rep["coll"], ctx=rep["ctx"])
            own = vlib.owners(mm)
            # C18: a disagreement that occurs only when some argument or stored prefix carries host bits
            # (never in a host-free row of the same table) shows that host bits are not ignored as keys
            slot = f"{mm['kind']}/{mm['e'].get('a', '?')}"
            if rep.get("per_kind", {}).get(slot, 0) > 0 and rep.get("per_kind_hostfree", {}).get(slot, 0) == 0 \
                    and vlib.has_nonzero_host(mm.get("h")) | vlib.has_nonzero_host(mm.get("e")) \
                    and not any(o.endswith("-nonbinding") for o in own):   # what no property fixes, C18 does not either
                own = own | {"C18"}
            if prop in own:
                mine.append(mm)
            else:
                foreign += 1
                if os.environ.get("VERIF_DEBUG") and foreign <= 5:
                    log("foreign mismatch", sorted(vlib.owners(mm)), json.dumps({k: mm.get(k) for k in ("kind", "ptype", "coll", "h", "e", "expected", "got")})[:1500])
    executed = sum(r.get("executed", 0) for r in reports) + sum(t.get("lines_ok", 0) for t in traces)
    per_action = {}
    for r in reports:
        for k, v in r.get("per_action", {}).items():
            per_action[k] = per_action.get(k, 0) + v
    samples = []
    for r in reports:
        samples += r.get("samples", [])[:1]
    samples = samples[:4] or [{"note": "no rows executed"}]
    cov = dict(
        states=sum(r.get("distinct", 0) for r in tlc_results),
        transitions=sum(r.get("generated", 0) for r in tlc_results),
        traces_validated_against_impl=executed,
        samples=samples,
        exhaustive=not any(getattr(j, "simulate", None) for j in jobs),
        tlc_configurations=[dict(name=r["name"], distinct_states=r.get("distinct"), transitions=r.get("generated"),
                                 depth=r.get("depth"), rows_emitted=r["rows"], wall_s=r["wall"],
                                 constants=j.consts, invariants=j.inv, step_properties=j.props)
                            for j, r in zip(jobs, tlc_results)],
        replay_targets=[dict(ptype=r["ptype"], coll=r["coll"], ctx=r.get("ctx"), rows=r.get("rows"),
                             executed=r.get("executed"), states_rebuilt=r.get("states"),
                             skipped_host=r.get("skipped_host"), skipped_unsupported=r.get("skipped_unsupported"),
                             pre_failed=r.get("pre_failed"), mismatches=r.get("mismatch_count")) for r in reports],
        rows_executed_per_action=per_action,
        traces=[dict(ptype=t["ptype"], profile=t["profile"], seed=t.get("seed"), lines=t["lines"], lines_accepted=t["lines_ok"],
                     rejections=len(t["rejections"]), per_action=t.get("per_action"), max_entries=t.get("max_entries"),
                     diverged=bool(t.get("diverged")), sample_line=t.get("sample")) for t in traces],
        trace_lines_validated_by_tlc=sum(t.get("lines_ok", 0) for t in traces),
        disagreements_owned_by_other_properties=foreign,
        rule="every transition TLC generates in the bounded universe is executed on the real code "
             "(path replay through the public API, then the event) and compared field by field",
    )
    if executed == 0:
        raise ToolError("no row was executed on the implementation (vacuous run)")
    # listed findings met in this run (explained by the specification's named deviations)
    drift_rows = sum(r.get("drift_rows", 0) for r in reports)
    cov["rows_with_counter_drift_F4"] = drift_rows
    if prop == "C04" and drift_rows:
        for kf in vlib.load_known_findings():
            if kf["property"] == "C04" and kf["status"] == "open":
                print(f"KNOWN-FINDING: property=C04 {kf['id']}: {kf['what']} ({kf['site']})")
    kf7 = sum(r.get("kf_f7_rows", 0) for r in reports)
    cov["rows_with_use_after_remove_panic_F7"] = kf7
    if prop == "C20" and kf7:
        for kf in vlib.load_known_findings():
            if kf["property"] == "C20" and kf["status"] == "open":
                print(f"KNOWN-FINDING: property=C20 {kf['id']}: {kf['what']} ({kf['site']})")
    viol = 0
    seen = set()
    for mm in mine:
        key = (mm["kind"], mm["e"].get("a"))
        if key in seen:
            continue
        seen.add(key)
        viol += 1
        path = vlib.write_replay(prop, dict(property=prop, engine=mm.get("engine", "table"), ptype=mm["ptype"], coll=mm["coll"],
                                            ctx=mm["ctx"], kind=mm["kind"], steps=mm.get("h", []), event=mm["e"],
                                            expected=mm.get("expected"), observed=mm.get("got"), row=mm.get("row")))
        print(f"VIOLATION property={prop} replay={path}")
        print(f"  {mm['kind']} on {mm['e'].get('a')} [{mm['ptype']}/{mm['coll']}]: expected {json.dumps(mm.get('expected'))[:300]} got {json.dumps(mm.get('got'))[:300]}")
    if prop == "C16":
        cov["unbounded_histories"] = vlib.apalache_accounting()
    vlib.write_evidence(prop, tier, LEVEL[prop], cov, time.time() - t0, viol,
                        ["TLC explores the bounded universe exhaustively (state identity up to slot renaming)",
                         "harness projection (bit conversion, view walk) is correct; it is independent of the Prefix impls",
                         "hook verif_snapshot reports the arena faithfully"])
    if viol:
        return 1
    print(f"OK property={prop} tier={tier} states={cov['states']} transitions={cov['transitions']} rows_executed={executed} foreign={foreign} wall={time.time()-t0:.0f}s")
    return 0


def setup():
    try:
        for pr in ["C%02d" % i for i in range(1, 21)]:
            if pr not in ("C14", "C17"):
                plan(pr, "quick"), plan(pr, "thorough")
        vlib.build_harness("dev")
        for f in sorted(os.listdir(vlib.SPEC)):
            if f.endswith(".tla"):
                p = subprocess.run(["java", "-cp", vlib.JAVA_CP, "tla2sany.SANY", f], cwd=vlib.SPEC,
                                   capture_output=True, text=True)
                if p.returncode != 0 or "error" in p.stdout.lower().replace("semantic errors:\n\n", ""):
                    if "Semantic error" in p.stdout or "Parse Error" in p.stdout or "Could not" in p.stdout:
                        print(p.stdout[-2000:])
                        return 2
        print("setup ok")
        return 0
    except ToolError as e:
        print("TOOL-ERROR", e)
        return 2


def replay_file(path):
    rec = json.load(open(path))
    binpath = vlib.build_harness("dev")
    os.makedirs(vlib.WORK, exist_ok=True)
    if rec.get("engine") in ("trace", "table-observation") and rec.get("coll", "").startswith("trace"):
        # re-execute the recorded calls on the current tree and validate the new log with TLC
        d = vlib._trace_dir("replay")
        evf = os.path.join(d, "events.ndjson")
        with open(evf, "w") as f:
            f.write(json.dumps({"a": "Reset"}) + "\n")
            for st in rec.get("steps", []):
                if st.get("a") != "Reset":
                    f.write(json.dumps(st) + "\n")
            if "E" not in rec["event"] and rec["event"].get("a") not in ("Obs", "Iter", "IterVsSweep", "Len"):
                f.write(json.dumps(rec["event"]) + "\n")
            else:
                # the disagreement was found on an observation line (the contents / observers after these calls):
                # the calls are re-executed and re-validated; the observation itself is in the file
                print("note: observation-relative counterexample; re-validating the calls that lead to it")
        tf = os.path.join(d, "trace.ndjson")
        p = subprocess.run([binpath, "rerun", "--type", rec["ptype"], "--events", evf, "--trace", tf], capture_output=True, text=True)
        if p.returncode == 3:
            print(f"VIOLATION property={rec['property']} replay={path}")
            print("  the replayed call does not terminate")
            return 1
        if p.returncode != 0:
            print("TOOL-ERROR rerun failed", p.stderr[-800:])
            return 2
        res = vlib.validate_trace(dict(dir=d, trace=tf, ptype=rec["ptype"], profile="replay"))
        print(json.dumps({k: res[k] for k in ("lines", "lines_ok")}), "rejections:", len(res["rejections"]))
        if res["rejections"]:
            print(f"VIOLATION property={rec['property']} replay={path}")
            return 1
        print("replay: no disagreement on the current tree")
        return 0
    if rec.get("engine") in ("program", "alg", "sched"):
        print("replay of", rec.get("engine"), "counterexamples: re-run the owning check (./check", rec.get("property"), "quick); the file holds the program / line")
        return 2
    tmp = os.path.join(vlib.WORK, "replay_one.ndjson")
    row = rec["row"] or {}
    with open(tmp, "w") as f:
        f.write(json.dumps({"s": rec["steps"], "f": row.get("f"), "fx": row.get("fx"), "cn": False}) + "\n")
        r = dict(h=rec["steps"], e=rec["event"], r=row.get("r"), pn=row.get("pn"), t=row.get("t"), x=row.get("x"))
        f.write(json.dumps(r) + "\n")
    rep = vlib.replay_rows(binpath, tmp, rec["ptype"], rec["coll"], rec["ctx"])
    os.remove(tmp)
    print(json.dumps(rep, indent=1)[:4000])
    if rep["mismatch_count"]:
        print(f"VIOLATION property={rec['property']} replay={path}")
        return 1
    print("replay: no disagreement on the current tree")
    return 0
