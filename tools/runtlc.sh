#!/bin/sh
# usage: runtlc.sh WORKERS CFGDIR NAME [extra tlc args]   (copies spec/*.tla next to the generated config)
W=$1; D=$2; N=$3; shift 3
cp /verif/spec/*.tla "$D"/ && cd "$D" && exec java -XX:+UseParallelGC ${TLC_JAVA_OPTS:--Xmx8g -Xss512m} -cp /opt/veriftools/tla/tla2tools.jar:/opt/veriftools/tla/CommunityModules-deps.jar tlc2.TLC -workers $W -metadir "$D/md_$N" -cleanup -noGenerateSpecTE "$@" -config $N.cfg $N.tla
