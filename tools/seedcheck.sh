#!/bin/bash
# usage: seedcheck.sh <worktree-id> <seed-name> <prop> [prop...]
# confirms the seeded change in /tmp/wt/<id> (suite passes, demo fails with / passes without), stores it under
# /verif/seeded/<seed-name>/, runs the given quick checks against it on /repo, restores /repo, removes the worktree.
ID=$1; NAME=$2; shift 2
WT=/tmp/wt/$ID
OUT=/verif/seeded/$NAME
set -u
mkdir -p $OUT
cp $WT/SEED/patch.diff $OUT/patch.diff || exit 2
cp $WT/SEED/seed_demo.rs $OUT/seed_demo.rs
cp $WT/SEED/notes.md $OUT/notes.md 2>/dev/null
cd $WT
git checkout -q -- src && git apply $OUT/patch.diff || { echo "patch does not apply"; exit 2; }
mkdir -p tests && cp $OUT/seed_demo.rs tests/seed_demo.rs
SUITE=$(cargo test --offline --lib 2>&1 | grep -E "^test result" | head -1)
DOC=$(cargo test --offline --doc 2>&1 | grep -E "^test result" | head -1)
DEMO_WITH=$(cargo test --offline --test seed_demo 2>&1 | grep -E "^test result" | head -1)
git checkout -q -- src
DEMO_WITHOUT=$(cargo test --offline --test seed_demo 2>&1 | grep -E "^test result" | head -1)
echo "suite(with): $SUITE"; echo "doc(with): $DOC"; echo "demo(with): $DEMO_WITH"; echo "demo(without): $DEMO_WITHOUT"
cd /repo
if [ -n "$(git status --porcelain --untracked-files=no)" ]; then echo "repo dirty"; exit 2; fi
git apply $OUT/patch.diff || { echo "patch does not apply to /repo"; exit 2; }
RES=""
for prop in "$@"; do
  R=$(cd /verif && timeout 1500 ./check $prop quick 2>&1 | grep -E "^(VIOLATION|OK|TOOL-ERROR)" | head -3 | tr '\n' ';')
  echo "[$prop] $R"
  RES="$RES\"$prop\": \"$(echo $R | cut -c1-300 | sed 's/"/\\"/g')\", "
done
git -C /repo checkout -- .
python3 - "$NAME" "$ID" "$SUITE" "$DOC" "$DEMO_WITH" "$DEMO_WITHOUT" "{${RES%, }}" <<'PY'
import json,sys,os
name,wid,suite,doc,dw,dwo,res=sys.argv[1:8]
out=f"/verif/seeded/{name}"
meta=dict(seed=name, written_for_property=wid, suite_with_change=suite, doctests_with_change=doc,
          demo_with_change=dw, demo_without_change=dwo, checks_run=json.loads(res),
          commands=["git apply patch.diff (scratch worktree of /repo HEAD)", "cargo test --offline --lib / --doc", "cargo test --offline --test seed_demo (with and without the change)",
                    "git -C /repo apply patch.diff; ./check <prop> quick; git -C /repo checkout -- ."],
          notes=open(out+"/notes.md").read() if os.path.exists(out+"/notes.md") else "")
json.dump(meta,open(out+"/meta.json","w"),indent=1)
PY
cd /repo && git worktree remove --force $WT && echo "worktree removed"
